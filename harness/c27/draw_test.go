package c27

import (
	"fmt"
	"testing"

	"google.golang.org/protobuf/zverif/corpus"
	"google.golang.org/protobuf/zverif/gen"
	"google.golang.org/protobuf/zverif/model"
	"google.golang.org/protobuf/zverif/pbt"
	"google.golang.org/protobuf/zverif/ref"
	"pgregory.net/rapid"
)

var types, rich = corpus.Standard(), corpus.Rich(20)

// lazyTypes have [lazy = true] submessages: their decoded form may keep the input bytes.
// (restricted to corpus.Standard(): MessageSet users are outside the default build)
var lazyTypes = standardOnly(append(corpus.Filter("opaque.lazy_tree.", "lazy_tree.", "hybrid.lazy_tree.", "lazy_normalized_wire_test.", "lazy_extension"),
	"goproto.proto.test.OpenLazy", "goproto.proto.test.HybridLazy", "goproto.proto.test.OpaqueLazy",
	"opaque.goproto.proto.testeditions.TestAllTypes", "opaque.goproto.proto.testeditions.TestRequiredLazy"))

func standardOnly(names []string) (out []string) {
	std := map[string]bool{}
	for _, n := range types {
		std[n] = true
	}
	for _, n := range names {
		if std[n] {
			out = append(out, n)
		}
	}
	return out
}

var craftSizes = []int{0, 1, 2, 3, 126, 127, 128, 129, 130, 16382, 16383, 16384, 16385, 16386, 65535, 65536, 70000}
var smallSizes = []int{0, 2, 3, 4, 9, 20}
var bufSizes = []int{16, 17, 31, 32, 64, 127, 128, 129, 130, 131, 1024, 4096, 16384, 16385, 16386, 16387, 65536, 70003, 70004, 70010}

func drawChunks(t *rapid.T) []int {
	ch := rapid.SliceOfN(rapid.IntRange(0, 40), 1, 6).Draw(t, "chunks")
	for i := range ch {
		if ch[i] == 0 && (i == 0 || ch[i-1] == 0 || i == len(ch)-1) {
			ch[i] = 1 // never two (0, nil) reads in a row, also not across the wrap-around
		}
	}
	return ch
}

func drawReader(t *rapid.T) readerSpec {
	rs := readerSpec{}
	switch rapid.IntRange(0, 6).Draw(t, "reader") {
	case 0, 1, 2:
		rs.Kind = "bufio"
		if rapid.Bool().Draw(t, "bufpool") {
			rs.Buf = rapid.SampledFrom(bufSizes).Draw(t, "buf")
		} else {
			rs.Buf = rapid.IntRange(16, 600).Draw(t, "buf")
		}
		rs.Under = rapid.SampledFrom([]string{"bytes", "bytes", "onebyte", "short"}).Draw(t, "under")
	case 3:
		rs.Kind = "bytes"
	case 4:
		rs.Kind = "onebyte"
	default:
		rs.Kind = "short"
	}
	if rs.Kind == "short" || rs.Under == "short" {
		rs.Chunks = drawChunks(t)
		rs.EOFWithData = rapid.Bool().Draw(t, "eofdata")
		rs.Broken = rapid.IntRange(0, 2).Draw(t, "broken") == 0
	}
	return rs
}

func drawMax(t *rapid.T) int {
	if rapid.IntRange(0, 9).Draw(t, "max?") < 4 {
		return maxDefault
	}
	return rapid.IntRange(0, nMaxModes-1).Draw(t, "max")
}

func drawFrame(t *rapid.T, small bool) frame {
	f := frame{Craft: -1, Max: drawMax(t)}
	if rapid.IntRange(0, 9).Draw(t, "craft?") < 4 {
		f.Type = craftType
		if small {
			f.Craft = rapid.SampledFrom(smallSizes).Draw(t, "size")
		} else if rapid.IntRange(0, 4).Draw(t, "pool") > 0 {
			f.Craft = rapid.SampledFrom(craftSizes).Draw(t, "size")
		} else {
			f.Craft = rapid.IntRange(0, 400).Draw(t, "size")
		}
		f.Fill = rapid.Byte().Draw(t, "fill")
	} else {
		if rapid.IntRange(0, 5).Draw(t, "lazytype") == 0 && len(lazyTypes) > 0 {
			f.Type = rapid.SampledFrom(lazyTypes).Draw(t, "type")
		} else {
			f.Type = gen.TypeName(types, rich).Draw(t, "type")
		}
		md := corpus.ByName(f.Type).Descriptor()
		mo := gen.DefaultMsgOpts
		if small {
			mo.Depth, mo.MaxFields, mo.MaxList, mo.MaxBytes = 1, 2, 2, 12
		}
		f.M = gen.DrawMessage(t, md, mo)
		o := model.AllPerturbations
		f.Wire = model.Encode(md, f.M, gen.RapidChooser{T: t}, o, nil)
	}
	if rapid.IntRange(0, 3).Draw(t, "pad?") == 0 {
		f.SizePad = rapid.IntRange(ref.VarintLen(uint64(len(f.body())))+1, 10).Draw(t, "sizepad")
	}
	return f
}

func drawCase(t *rapid.T, small bool) streamCase {
	c := streamCase{Cut: -1, CutA: -1, WFail: -1, TailMax: drawMax(t), Reader: drawReader(t), Lazy: rapid.Bool().Draw(t, "lazy"), Det: rapid.Bool().Draw(t, "det"), Reuse: rapid.Bool().Draw(t, "reuse")}
	n := rapid.IntRange(0, 8).Draw(t, "nframes")
	if small {
		n = rapid.IntRange(0, 3).Draw(t, "nframes")
	}
	for i := 0; i < n; i++ {
		c.Frames = append(c.Frames, drawFrame(t, small))
	}
	if rapid.IntRange(0, 4).Draw(t, "tail?") == 0 {
		c.Tail = rapid.SampledFrom([]string{"overflow10", "eleven", "huge", "huge-padded"}).Draw(t, "tail")
		c.TailV = rapid.SampledFrom(tailHuge).Draw(t, "tailv")
	}
	if small {
		return c
	}
	if rapid.Bool().Draw(t, "cut?") {
		b := refStream(&c)
		c.Cut = drawCut(t, &c, len(b))
		c.CutA = rapid.IntRange(0, 1<<20).Draw(t, "cuta")
	}
	if rapid.IntRange(0, 3).Draw(t, "wfail?") == 0 {
		c.WFail = rapid.IntRange(0, 300).Draw(t, "wfail")
	}
	return c
}

// drawCut prefers offsets near frame boundaries (inside the size, first/last body byte).
func drawCut(t *rapid.T, c *streamCase, total int) int {
	if rapid.Bool().Draw(t, "nearboundary") && len(c.Frames) > 0 {
		pos, k := 0, rapid.IntRange(0, len(c.Frames)-1).Draw(t, "cutframe")
		for i := 0; i <= k; i++ {
			n := len(c.Frames[i].body())
			vl := max(ref.VarintLen(uint64(n)), c.Frames[i].SizePad)
			if i == k {
				cut := pos + rapid.IntRange(0, vl+1).Draw(t, "cutoff")
				if rapid.Bool().Draw(t, "atend") {
					cut = pos + vl + n - rapid.IntRange(0, 2).Draw(t, "cutback")
				}
				return min(max(cut, 0), total)
			}
			pos += vl + n
		}
	}
	return rapid.IntRange(0, total).Draw(t, "cut")
}

// lastStats is what the model saw in the case checked last (pbt calls Check, NonTrivial, Classes
// one after the other on the same case).
var lastStats = &readStats{}

func checkStreamRecord(c streamCase) error {
	st, err := checkStreamStats(&c)
	lastStats = st
	return err
}

func frameSizes(c *streamCase) (sizes []int) {
	for _, f := range c.Frames {
		sizes = append(sizes, len(f.body()))
	}
	return
}

func nonTrivial(c streamCase) bool {
	big, maxSize := false, 0
	for _, n := range frameSizes(&c) {
		big = big || n > 127
		maxSize = max(maxSize, n)
	}
	return len(c.Frames) >= 2 && big && (c.Reader.Kind != "bufio" || c.Reader.Buf < maxSize)
}

func classes(c streamCase) []string {
	set := map[string]bool{}
	maxSize := 0
	for i, n := range frameSizes(&c) {
		maxSize = max(maxSize, n)
		switch {
		case n == 0:
			set["frame-empty"] = true
		case n < 128:
			set["frame-1-byte-size"] = true
		case n < 16384:
			set["frame-2-byte-size"] = true
		default:
			set["frame-3-byte-size"] = true
		}
		if c.Frames[i].SizePad > 0 {
			set[fmt.Sprintf("size-varint-padded-to-%d", c.Frames[i].SizePad)] = true
		}
		set[maxModeName[c.Frames[i].Max]] = true
		if c.Frames[i].Craft < 0 {
			set["drawn-message"] = true
		}
	}
	set[fmt.Sprintf("frames-%d", min(len(c.Frames), 4))] = true
	set["reader-"+c.Reader.Kind] = true
	if c.Reader.Kind == "bufio" {
		set["bufio-over-"+c.Reader.Under] = true
		if c.Reader.Buf < maxSize {
			set["bufio-smaller-than-a-frame"] = true
		} else if len(c.Frames) > 0 {
			set["bufio-holds-every-frame"] = true
		}
	}
	if c.Tail != "" {
		set["tail-"+c.Tail] = true
	}
	if c.Cut >= 0 {
		set["truncated"] = true
	}
	if c.WFail >= 0 {
		set["failing-writer"] = true
	}
	if c.Lazy {
		set["lazy-on"] = true
	}
	st := lastStats
	if st.cutInSize {
		set["ends-inside-size"] = true
	}
	if st.cutInBody {
		set["ends-inside-body"] = true
	}
	if st.tooLarge > 0 {
		set["size-too-large"] = true
	}
	if st.badVarint > 0 {
		set["size-varint-overflow"] = true
	}
	if st.eof > 0 {
		set["clean-eof"] = true
	}
	if st.broken > 0 {
		set["reader-own-error"] = true
	}
	var out []string
	for k := range set {
		out = append(out, k)
	}
	return out
}

func TestStream(t *testing.T) {
	pbt.Run(t, pbt.Prop[streamCase]{
		Name:       "stream",
		Rule:       "0-8 frames: crafted bodies of exactly 0/2/3/126..130/16382..16386/65535/65536/70000 bytes or messages of any linked type from the descriptor-directed generator; written by MarshalTo (framing checked with the reference varint parser) and independently as varint(len)||reference encoding with shortest or padded size varints and an optional tail (10-byte overflow, 11-byte varint, huge size without body); read back through bufio (drawn size) over bytes/one-byte/short-read readers, bytes.Reader, a one-byte reader, a short-read reader (with (0,nil) reads and data+EOF); MaxSize per read from default/-1/size-1/size/size+1/2^40; optional truncation (biased to frame boundaries); optional failing writer. non-trivial = >= 2 frames, one > 127 bytes, reader buffer smaller than a frame or not bufio",
		Draw:       func(t *rapid.T) streamCase { return drawCase(t, false) },
		Check:      checkStreamRecord,
		NonTrivial: nonTrivial,
		Classes:    classes,
		Quick:      7000, Thorough: 80000,
	})
}

// ---- every truncation offset of small streams --------------------------------------------------

func checkTruncateAll(c streamCase) error {
	bt, err := build(&c)
	if err != nil {
		return err
	}
	readers := []readerSpec{c.Reader, {Kind: "onebyte"}, {Kind: "bytes"}, {Kind: "bufio", Buf: 16, Under: "bytes"}, {Kind: "bufio", Buf: 4096, Under: "onebyte"}}
	st := &readStats{}
	ca := c
	ca.Tail = ""
	for _, rs := range readers {
		for cut := 0; cut <= len(bt.b); cut++ {
			if err := readBack(fmt.Sprintf("reference stream cut at %d", cut), bt.b[:cut:cut], &c, rs, bt.want, bt.orig, st); err != nil {
				return err
			}
		}
		for cut := 0; cut <= len(bt.a); cut++ {
			if err := readBack(fmt.Sprintf("MarshalTo stream cut at %d", cut), bt.a[:cut:cut], &ca, rs, bt.want, bt.orig, st); err != nil {
				return err
			}
		}
	}
	return nil
}

func TestTruncateAll(t *testing.T) {
	pbt.Run(t, pbt.Prop[streamCase]{
		Name:       "truncate-all",
		Rule:       "0-3 small frames (crafted 0/2/3/4/9/20 bytes or tiny drawn messages, padded size varints, optional tail); EVERY truncation offset 0..len of both streams, each read through the drawn reader, a one-byte reader, bytes.Reader, bufio(16) and bufio(4096) over a one-byte reader; non-trivial = >= 2 frames",
		Draw:       func(t *rapid.T) streamCase { return drawCase(t, true) },
		Check:      checkTruncateAll,
		NonTrivial: func(c streamCase) bool { return len(c.Frames) >= 2 },
		Classes: func(c streamCase) []string {
			out := []string{fmt.Sprintf("frames-%d", len(c.Frames)), "reader-" + c.Reader.Kind}
			if c.Tail != "" {
				out = append(out, "tail-"+c.Tail)
			}
			return out
		},
		Quick: 1200, Thorough: 10000,
	})
}

// ---- MaxSize around every crafted size, every reader family -------------------------------------

func TestMaxSizeGrid(t *testing.T) {
	if pbt.Shard != 0 && pbt.ReplayPath == "" {
		t.Skip("fixed grid: shard 0 only")
	}
	readers := []readerSpec{
		{Kind: "bufio", Buf: 16, Under: "bytes"},
		{Kind: "bufio", Buf: 131, Under: "short", Chunks: []int{3, 0, 50}},
		{Kind: "bufio", Buf: 70010, Under: "bytes"},
		{Kind: "bytes"},
		{Kind: "onebyte"},
		{Kind: "short", Chunks: []int{7, 0, 1, 40}, EOFWithData: true},
		{Kind: "short", Chunks: []int{9, 2}, Broken: true},
	}
	pbt.Enumerate(t, "maxsize-grid",
		"every crafted size (0,2,3,126..130,16382..16386,65535,65536,70000) x MaxSize in {default,-1,size-1,size,size+1,2^40} x 7 reader families x {first frame, after a 3-byte frame} x {whole, cut one byte short}; non-trivial = size > 127",
		true,
		func(yield func(streamCase, bool) bool) {
			for _, size := range craftSizes {
				for mode := 0; mode < nMaxModes; mode++ {
					for _, rs := range readers {
						for lead := 0; lead < 2; lead++ {
							for short := 0; short < 2; short++ {
								c := streamCase{Cut: -1, CutA: -1, WFail: -1, Reader: rs, TailMax: mode}
								if lead == 1 {
									c.Frames = append(c.Frames, frame{Type: craftType, Craft: 3, Max: maxExact})
								}
								c.Frames = append(c.Frames, frame{Type: craftType, Craft: size, Fill: byte(size), Max: mode})
								if short == 1 {
									n := len(refStream(&c))
									if n == 0 {
										continue
									}
									c.Cut, c.CutA = n-1, n-1
								}
								if !yield(c, size > 127) {
									return
								}
							}
						}
					}
				}
			}
		}, checkStream)
}
