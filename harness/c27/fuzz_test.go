package c27

import (
	"bytes"
	"fmt"
	"os"
	"runtime/debug"
	"strings"
	"testing"

	"google.golang.org/protobuf/encoding/protodelim"
	"google.golang.org/protobuf/proto"
	"google.golang.org/protobuf/reflect/protoreflect"
	"google.golang.org/protobuf/reflect/protoregistry"
	"google.golang.org/protobuf/zverif/corpus"
	"google.golang.org/protobuf/zverif/model"
	"google.golang.org/protobuf/zverif/pbt"
	"google.golang.org/protobuf/zverif/ref"
)

// Native fuzz target (thorough tier; `go test -fuzz`): fuzzer-chosen BYTES are the stream. The
// reference framing (harness/ref varint parser) cuts it into frames; the leading run of complete
// frames whose bodies proto.Unmarshal accepts (for the per-frame types chosen by the configuration
// bytes) are "the messages of the stream"; the stream is cut before the first complete frame with
// an undecodable body (what UnmarshalFrom returns for such a body is not the property's subject)
// and otherwise left as it is, so that it may end inside a size, inside a body, in a varint that
// does not fit 64 bits, or in an absurd size. The package's frame model (readBack) then judges
// every UnmarshalFrom result — message content after the reader's buffer has been reused, io.EOF,
// io.ErrUnexpectedEOF, *SizeTooLargeError with its fields, the reader's own error — for a reader
// shape and per-read MaxSize modes decoded from the configuration bytes. The accepted messages
// are also written with MarshalTo (framing checked as in build) and read back the same way.
var fuzzFrameTypes = func() []string {
	var out []string
	for _, n := range []string{craftType, "google.protobuf.Empty", "opaque.lazy_tree.Node", "goproto.proto.test3.TestAllTypes",
		"opaque.goproto.proto.testeditions.TestAllTypes", "goproto.proto.test.TestAllExtensions", "google.protobuf.Struct"} {
		if _, err := protoregistry.GlobalTypes.FindMessageByName(protoreflect.FullName(n)); err == nil {
			out = append(out, n)
		}
	}
	return out
}()

type fzStream struct {
	S       []byte     `json:"s"`
	Types   []string   `json:"types"` // type of the i-th read (cycled)
	Modes   []int      `json:"modes"` // MaxSize mode of the i-th read (cycled)
	TailMax int        `json:"tail_max"`
	Reader  readerSpec `json:"reader"`
	Lazy    bool       `json:"lazy,omitempty"`
	Det     bool       `json:"det,omitempty"`
}

const fuzzMaxFrames = 24

func checkFuzzStream(c fzStream) error {
	if len(c.Types) == 0 || len(c.Modes) == 0 {
		return fmt.Errorf("harness: empty configuration")
	}
	sc := streamCase{TailMax: c.TailMax, Reader: c.Reader, Lazy: c.Lazy, Det: c.Det, Cut: -1, CutA: -1, WFail: -1}
	var want []*model.Msg
	var orig []protoreflect.Message
	s := c.S
	uo := proto.UnmarshalOptions{AllowPartial: true, NoLazyDecoding: !c.Lazy}
	for pos, i := 0, 0; pos < len(s); i++ {
		size, vn, d := ref.ConsumeVarint(s[pos:])
		if d != ref.OK || size > uint64(len(s)-pos-vn) {
			break // the frame model decides what this read has to return
		}
		if i == fuzzMaxFrames {
			s = s[:pos:pos]
			break
		}
		typ := c.Types[i%len(c.Types)]
		m := corpus.ByName(typ).New()
		if err := uo.Unmarshal(s[pos+vn:pos+vn+int(size)], m.Interface()); err != nil {
			s = s[:pos:pos]
			break
		}
		sc.Frames = append(sc.Frames, frame{Type: typ, Craft: -1, Max: c.Modes[i%len(c.Modes)] % nMaxModes})
		orig = append(orig, m)
		want = append(want, model.Snapshot(m))
		pos += vn + int(size)
	}
	st := &readStats{}
	if err := readBack("fuzz stream", s, &sc, c.Reader, want, orig, st); err != nil {
		return err
	}
	// the same messages through MarshalTo
	mo := protodelim.MarshalOptions{MarshalOptions: proto.MarshalOptions{AllowPartial: true, Deterministic: c.Det}}
	w := &limitWriter{limit: -1}
	for i, m := range orig {
		before := w.buf.Len()
		n, err := mo.MarshalTo(w, m.Interface())
		if err != nil {
			return fmt.Errorf("MarshalTo(frame %d) failed: %v", i, err)
		}
		chunk := w.buf.Bytes()[before:]
		if n != len(chunk) {
			return fmt.Errorf("MarshalTo(frame %d) = %d, but %d bytes were written", i, n, len(chunk))
		}
		sz, vn, d := ref.ConsumeVarint(chunk)
		if d != ref.OK || sz != uint64(len(chunk)-vn) {
			return fmt.Errorf("MarshalTo(frame %d): %d bytes written do not start with the varint of the body length (prefix %x)", i, len(chunk), chunk[:min(len(chunk), 11)])
		}
		if vn != ref.VarintLen(sz) {
			return fmt.Errorf("MarshalTo(frame %d): size %d written in %d bytes, shortest form has %d", i, sz, vn, ref.VarintLen(sz))
		}
		if _, ok := ref.Split(chunk[vn:]); !ok {
			return fmt.Errorf("MarshalTo(frame %d): body is not a well-formed field sequence", i)
		}
	}
	a := append([]byte(nil), w.buf.Bytes()...)
	return readBack("stream written by MarshalTo", a, &sc, c.Reader, want, orig, st)
}

// decodeConfig turns configuration bytes into the reader shape, the options and the per-read
// types and modes (a cursor that yields 0 when the bytes run out).
func decodeConfig(stream, cfg []byte) fzStream {
	i := 0
	next := func() int {
		if i < len(cfg) {
			i++
			return int(cfg[i-1])
		}
		return 0
	}
	c := fzStream{S: stream}
	fl := next()
	c.Lazy, c.Det = fl&1 != 0, fl&2 != 0
	rs := readerSpec{}
	switch next() % 7 {
	case 0, 1, 2:
		rs.Kind = "bufio"
		if b := next(); b&1 != 0 {
			rs.Buf = bufSizes[(b>>1)%len(bufSizes)]
		} else {
			rs.Buf = 16 + (b>>1)*5
		}
		rs.Under = []string{"bytes", "bytes", "onebyte", "short"}[next()%4]
	case 3:
		rs.Kind = "bytes"
	case 4:
		rs.Kind = "onebyte"
	default:
		rs.Kind = "short"
	}
	if rs.Kind == "short" || rs.Under == "short" {
		n := 1 + next()%6
		for k := 0; k < n; k++ {
			rs.Chunks = append(rs.Chunks, next()%41)
		}
		for k := range rs.Chunks {
			if rs.Chunks[k] == 0 && (k == 0 || rs.Chunks[k-1] == 0 || k == len(rs.Chunks)-1) {
				rs.Chunks[k] = 1 // never two (0, nil) reads in a row (as drawChunks)
			}
		}
		rs.EOFWithData = fl&4 != 0
		rs.Broken = fl&8 != 0
	}
	c.Reader = rs
	c.TailMax = next() % nMaxModes
	n := 1 + next()%8
	for k := 0; k < n; k++ {
		b := next()
		c.Types = append(c.Types, fuzzFrameTypes[(b&15)%len(fuzzFrameTypes)])
		c.Modes = append(c.Modes, (b>>4)%nMaxModes)
	}
	return c
}

func fuzzStreamSeeds() (streams [][]byte, cfgs [][]byte) {
	frameOf := func(body []byte, pad int) []byte {
		if pad > 0 {
			return append(ref.VarintPadded(nil, uint64(len(body)), pad), body...)
		}
		return append(ref.Varint(nil, uint64(len(body))), body...)
	}
	md := corpus.ByName(craftType).Descriptor()
	craft := func(n int) []byte {
		return model.Encode(md, craftModel(n, 'x'), nil, model.EncOpts{SortFields: true}, nil)
	}
	var s1, s2, s3 []byte
	for _, n := range []int{0, 2, 3, 9, 20} {
		s1 = append(s1, frameOf(craft(n), 0)...)
	}
	for _, n := range []int{126, 127, 128, 129, 300} {
		s2 = append(s2, frameOf(craft(n), 0)...)
	}
	s3 = append(frameOf(craft(5), 3), frameOf(craft(0), 10)...)
	node := []byte{0x08, 0x01, 0x12, 0x04, 0x08, 0x02, 0x12, 0x00} // a small lazy tree / generic records
	s4 := append(frameOf(node, 0), frameOf([]byte{0x0a, 0x03, 'a', 'b', 'c', 0x10, 0x01}, 0)...)
	streams = [][]byte{
		{}, s1, s2, s3, s4,
		s1[:len(s1)-1], s2[:1], s2[:130], append(append([]byte{}, s1...), 0x80), append(append([]byte{}, s1...), 0x05, 0x08), // truncated in body / size
		append(append([]byte{}, s1...), tailBytes("overflow10", 3)...), append(append([]byte{}, s1...), tailBytes("eleven", 5)...),
		append(append([]byte{}, s4...), tailBytes("huge", 4<<20+1)...), append(append([]byte{}, s4...), tailBytes("huge", 1<<62+5)...), tailBytes("huge-padded", 1<<63), tailBytes("huge", 1<<64-1),
		append(frameOf([]byte{0x08}, 0), s1...),       // complete frame, body is a truncated field
		append(frameOf([]byte{0x0a, 0xff}, 0), s1...), // complete frame, undecodable body
		{0x00, 0x00, 0x00}, {0x80, 0x00}, {0x80, 0x80, 0x80, 0x80, 0x80, 0x80, 0x80, 0x80, 0x80, 0x00}, {0x01}, {0xff, 0xff, 0x03},
		append(ref.Varint(nil, 70000), bytes.Repeat([]byte{0x08, 0x01}, 200)...),
	}
	cfgs = [][]byte{
		{}, {0x01, 0x00, 0x01, 0x00, 0x00, 0x01, 0x00}, {0x00, 0x00, 0x02, 0x03, 0x03, 1, 0, 7, 0x02, 0x03, 0x10, 0x21, 0x32}, {0x02, 0x03, 0x04, 0x02, 0x40, 0x51},
		{0x04, 0x05, 0x04, 1, 2, 0, 3, 0x01, 0x02, 0x20, 0x30}, {0x0c, 0x06, 0x02, 5, 40, 0x03, 0x01, 0x33}, {0x03, 0x04, 0x05, 0x00, 0x14}, {0x09, 0x02, 0x07, 0x03, 0x01, 16, 0x04, 0x04, 0x00, 0x10, 0x20, 0x30, 0x40},
		{0x00, 0x01, 0x21, 0x01, 0x05, 0x02, 0x52, 0x05}, {0x01, 0x00, 0x00, 0x02, 0x02, 0x03, 0x22, 0x12, 0x02},
	}
	return
}

func fuzzSafe[C any](check func(C) error, c C) (err error) {
	defer func() {
		if r := recover(); r != nil {
			err = fmt.Errorf("PANIC: %v\n%s", r, debug.Stack())
		}
	}()
	return check(c)
}

// TestFuzzSeeds registers the fuzz check for replay and runs the seed corpus in every tier.
func TestFuzzSeeds(t *testing.T) {
	pbt.Enumerate(t, "fuzz-stream", "native fuzz target FuzzStream (thorough tier): fuzzer-chosen bytes as the stream, reader shape / options / per-read type and MaxSize mode from configuration bytes; frames found by the reference framing, results judged by the frame model; this sub-check replays the seed corpus (every seed stream under every seed configuration)", false,
		func(yield func(fzStream, bool) bool) {
			ss, cs := fuzzStreamSeeds()
			for _, s := range ss {
				for _, cfg := range cs {
					if !yield(decodeConfig(s, cfg), len(s) > 4) {
						return
					}
				}
			}
		}, func(c fzStream) error {
			if err := checkFuzzStream(c); err != nil && !strings.HasPrefix(err.Error(), "harness:") {
				return err
			}
			return nil
		})
}

func FuzzStream(f *testing.F) {
	ss, cs := fuzzStreamSeeds()
	for i, s := range ss {
		for k, cfg := range cs {
			if (i+k)%3 == 0 || k == 0 {
				f.Add(s, cfg)
			}
		}
	}
	f.Fuzz(func(t *testing.T, stream []byte, cfg []byte) {
		if len(stream) > 1<<13 || len(cfg) > 64 {
			return
		}
		c := decodeConfig(stream, cfg)
		err := fuzzSafe(checkFuzzStream, c)
		if err != nil && strings.HasPrefix(err.Error(), "harness:") {
			return
		}
		if err != nil {
			reportOnce("fuzz-stream", c, err)
			t.Fatal(err)
		}
	})
}

// reportOnce writes the replay file of a failing input; while the fuzzing engine minimises it, the
// check fails again and again with smaller inputs: only the latest replay file of this process is kept.
var lastReplay string

func reportOnce(test string, c any, err error) {
	n := len(pbt.S.Violation)
	pbt.ReportViolation(nil, test, c, err)
	if len(pbt.S.Violation) > n {
		cur := pbt.S.Violation[len(pbt.S.Violation)-1]
		if lastReplay != "" && lastReplay != cur {
			os.Remove(lastReplay)
		}
		lastReplay = cur
	}
}
