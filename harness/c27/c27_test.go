// Package c27 checks property C27: size-delimited streams (encoding/protodelim) frame messages
// exactly. The oracle is a frame model written from the package documentation: a stream is a
// concatenation of varint(len) || body; a read at the end of the stream is io.EOF, a read that
// meets the end inside a size or a body is io.ErrUnexpectedEOF, a size above the effective
// MaxSize (0 = 4 MiB, -1 = none) is a *SizeTooLargeError, everything else is the next message.
// Sizes are parsed with harness/ref, bodies come from the reference encoder (harness/model).
package c27

import (
	"bufio"
	"bytes"
	"errors"
	"fmt"
	"io"
	"math"

	"google.golang.org/protobuf/encoding/protodelim"
	"google.golang.org/protobuf/proto"
	"google.golang.org/protobuf/reflect/protoreflect"
	"google.golang.org/protobuf/zverif/corpus"
	"google.golang.org/protobuf/zverif/model"
	"google.golang.org/protobuf/zverif/ref"
)

// ---- case --------------------------------------------------------------------------------------

const craftType = "goproto.proto.test.TestAllTypes" // optional_bool = 13, optional_bytes = 15

// MaxSize modes, resolved against the size of the frame being read.
const (
	maxDefault   = iota // MaxSize: 0  (documented default 4 MiB)
	maxUnlimited        // MaxSize: -1
	maxMinus1           // MaxSize: size-1
	maxExact            // MaxSize: size
	maxPlus1            // MaxSize: size+1
	maxHuge             // MaxSize: 1<<40
	nMaxModes
)

var maxModeName = [...]string{"max-default", "max-unlimited", "max-size-1", "max-size", "max-size+1", "max-huge"}

type frame struct {
	Type    string     `json:"type"`
	M       *model.Msg `json:"m,omitempty"` // content of a drawn frame
	Craft   int        `json:"craft"`       // >= 0: crafted body of exactly this many bytes (craftType); -1: M
	Fill    byte       `json:"fill,omitempty"`
	Wire    []byte     `json:"wire,omitempty"`     // reference body of a drawn frame (perturbed but equivalent encoding of M)
	SizePad int        `json:"size_pad,omitempty"` // length of the size varint in the reference stream (0 = shortest)
	Max     int        `json:"max"`                // MaxSize mode of the read that meets this frame
}

type readerSpec struct {
	Kind        string `json:"kind"`                    // bufio | bytes | onebyte | short
	Buf         int    `json:"buf,omitempty"`           // bufio buffer size
	Under       string `json:"under,omitempty"`         // reader below bufio: bytes | onebyte | short
	Chunks      []int  `json:"chunks,omitempty"`        // short reader: successive Read sizes (cycled); 0 = a (0, nil) read
	EOFWithData bool   `json:"eof_with_data,omitempty"` // short reader returns the last bytes together with io.EOF
	Broken      bool   `json:"broken,omitempty"`        // short reader: the data ends with errBroken instead of io.EOF
}

type streamCase struct {
	Frames  []frame    `json:"frames"`
	Tail    string     `json:"tail,omitempty"` // junk after the last frame of the reference stream
	TailV   uint64     `json:"tail_v,omitempty"`
	TailMax int        `json:"tail_max"` // MaxSize mode of the read after the last frame (EOF / tail)
	Cut     int        `json:"cut"`      // reference stream truncated to this many bytes (-1: whole)
	CutA    int        `json:"cut_a"`    // MarshalTo stream truncated to CutA mod (len+1) bytes (-1: whole)
	Reader  readerSpec `json:"reader"`
	Lazy    bool       `json:"lazy,omitempty"`
	Reuse   bool       `json:"reuse,omitempty"` // destinations are populated messages (copies of the last one read of that type)
	Det     bool       `json:"det,omitempty"`
	WFail   int        `json:"wfail"` // >= 0: also write to a writer that fails after this many bytes
}

// ---- crafted bodies -----------------------------------------------------------------------------

// craftModel returns TestAllTypes content whose encoding has exactly size bytes (size 1 is not
// the length of any message: 2 is used instead).
func craftModel(size int, fill byte) *model.Msg {
	switch {
	case size <= 0:
		return &model.Msg{}
	case size <= 2:
		return &model.Msg{Fields: []model.Field{{Num: 13, Vals: []model.Val{{U: 1}}}}}
	}
	for extra := 0; extra <= 1; extra++ {
		rem := size - 2*extra
		for l := 1; l <= 4; l++ {
			n := rem - 1 - l
			if n >= 0 && ref.VarintLen(uint64(n)) == l {
				m := &model.Msg{}
				if extra == 1 {
					m.Fields = append(m.Fields, model.Field{Num: 13, Vals: []model.Val{{U: 1}}})
				}
				m.Fields = append(m.Fields, model.Field{Num: 15, Vals: []model.Val{{B: bytes.Repeat([]byte{fill}, n)}}})
				return m
			}
		}
	}
	panic(fmt.Sprintf("craftModel(%d)", size))
}

func craftSize(size int) int {
	if size == 1 {
		return 2
	}
	if size < 0 {
		return 0
	}
	return size
}

func (f frame) content() *model.Msg {
	if f.Craft >= 0 {
		return craftModel(f.Craft, f.Fill)
	}
	if f.M == nil {
		return &model.Msg{}
	}
	return f.M
}

func (f frame) body() []byte {
	if f.Craft >= 0 {
		md := corpus.ByName(craftType).Descriptor()
		b := model.Encode(md, f.content(), nil, model.EncOpts{SortFields: true}, nil)
		if len(b) != craftSize(f.Craft) {
			panic(fmt.Sprintf("harness: crafted body has %d bytes, want %d", len(b), f.Craft))
		}
		return b
	}
	return f.Wire
}

func (f frame) typ() string {
	if f.Craft >= 0 {
		return craftType
	}
	return f.Type
}

// ---- reference stream -----------------------------------------------------------------------------

var tailHuge = []uint64{4<<20 + 1, 1 << 32, 1<<62 + 5, math.MaxInt64, math.MaxInt64 + 1, math.MaxUint64}

func tailBytes(kind string, v uint64) []byte {
	switch kind {
	case "":
		return nil
	case "overflow10": // ten bytes whose last one carries more than the one remaining bit
		return append(bytes.Repeat([]byte{0xff}, 9), byte(2+v%126))
	case "eleven": // continuation bit still set in the tenth byte
		return append(bytes.Repeat([]byte{0x80 | byte(v&0x7f)}, 10), 0x00)
	case "huge": // a well-formed size that no body follows
		return ref.Varint(nil, v)
	case "huge-padded":
		return ref.VarintPadded(nil, v, 10)
	}
	panic("tail kind " + kind)
}

// refStream is the independent framing: varint(len) || body for every frame, then the tail.
func refStream(c *streamCase) []byte {
	var s []byte
	for _, f := range c.Frames {
		b := f.body()
		if f.SizePad > 0 {
			s = ref.VarintPadded(s, uint64(len(b)), f.SizePad)
		} else {
			s = ref.Varint(s, uint64(len(b)))
		}
		s = append(s, b...)
	}
	return append(s, tailBytes(c.Tail, c.TailV)...)
}

// ---- readers --------------------------------------------------------------------------------------

// shortReader is a conforming io.Reader + io.ByteReader that returns data in drawn chunk sizes,
// now and then (0, nil), and optionally the last bytes together with io.EOF.
type shortReader struct {
	data        []byte
	off, i      int
	chunks      []int
	eofWithData bool
	end         error // io.EOF, or errBroken for a connection that breaks
}

var errBroken = errors.New("c27: connection reset")

func (r *shortReader) Read(p []byte) (int, error) {
	if len(p) == 0 {
		return 0, nil
	}
	if r.off == len(r.data) {
		return 0, r.end
	}
	k := 1
	if len(r.chunks) > 0 {
		k = r.chunks[r.i%len(r.chunks)]
		r.i++
	}
	if k == 0 {
		return 0, nil
	}
	n := copy(p[:min(k, len(p))], r.data[r.off:])
	r.off += n
	if r.off == len(r.data) && r.eofWithData {
		return n, r.end
	}
	return n, nil
}

func (r *shortReader) ReadByte() (byte, error) {
	if r.off == len(r.data) {
		return 0, r.end
	}
	b := r.data[r.off]
	r.off++
	return b, nil
}

func (rs readerSpec) plain(kind string, data []byte) protodelim.Reader {
	switch kind {
	case "onebyte":
		return &shortReader{data: data, chunks: []int{1}, end: io.EOF}
	case "short":
		end := io.EOF
		if rs.Broken {
			end = errBroken
		}
		return &shortReader{data: data, chunks: rs.Chunks, eofWithData: rs.EOFWithData, end: end}
	default:
		return bytes.NewReader(data)
	}
}

func (rs readerSpec) open(data []byte) (protodelim.Reader, *bufio.Reader) {
	if rs.Kind == "bufio" {
		br := bufio.NewReaderSize(rs.plain(rs.Under, data), rs.Buf)
		return br, br
	}
	return rs.plain(rs.Kind, data), nil
}

// scribble overwrites the whole internal buffer of br (which later reads of a long stream would
// do anyway), so that a message still pointing into it shows.
func scribble(br *bufio.Reader) {
	br.Reset(bytes.NewReader(bytes.Repeat([]byte{0xa5}, 3*br.Size()+7)))
	for {
		if _, err := br.ReadByte(); err != nil {
			return
		}
	}
}

// ---- the frame model and the comparison -----------------------------------------------------------

const defaultLimit = 4 << 20 // "A zero MaxSize will default to 4 MiB."

func resolveMax(mode int, size uint64) int64 {
	s := int64(size)
	if size > math.MaxInt64-1 {
		s = math.MaxInt64 - 1
	}
	switch mode {
	case maxUnlimited:
		return -1
	case maxMinus1:
		return s - 1
	case maxExact:
		return s
	case maxPlus1:
		return s + 1
	case maxHuge:
		return 1 << 40
	}
	return 0
}

// limitOf is the documented meaning of MaxSize.
func limitOf(max int64) (limit uint64, unlimited bool) {
	switch {
	case max == 0:
		return defaultLimit, false
	case max == -1:
		return 0, true
	}
	return uint64(max), false
}

type readStats struct {
	frames, eof, unexpected, tooLarge, badVarint, broken int
	cutInSize, cutInBody                                 bool
}

// readBack reads stream s with the case's reader and options and compares every result with the
// frame model. want[i] / orig[i] are the expected content of the i-th frame.
func readBack(label string, s []byte, c *streamCase, rs readerSpec, want []*model.Msg, orig []protoreflect.Message, st *readStats) error {
	r, br := rs.open(s)
	pos := 0
	var got []protoreflect.Message
	for i := 0; ; i++ {
		typ, mode := craftType, c.TailMax
		if i < len(c.Frames) {
			typ, mode = c.Frames[i].typ(), c.Frames[i].Max
		}
		// the model's verdict for the read at pos
		const (
			wantFrame = iota
			wantEOF
			wantUnexpected
			wantTooLarge
			wantBadVarint
			wantNothing
		)
		verdict, size, vn := wantFrame, uint64(0), 0
		var max int64
		if pos == len(s) {
			verdict = wantEOF
			max = resolveMax(mode, 0)
		} else {
			v, n, d := ref.ConsumeVarint(s[pos:])
			switch d {
			case ref.Truncated:
				verdict = wantUnexpected
				st.cutInSize = true
			case ref.Overflow:
				verdict = wantBadVarint
			default:
				size, vn = v, n
				max = resolveMax(mode, size)
				limit, unlimited := limitOf(max)
				if (unlimited || size <= limit) && size > 8<<20 {
					// the reader may allocate what an admitted size announces: never admit an absurd
					// one, except to see that "no limit" still refuses what cannot be allocated
					if !(unlimited && size > math.MaxInt64) {
						max = 0
						limit, unlimited = limitOf(max)
					}
				}
				switch {
				case unlimited && size > math.MaxInt64, !unlimited && size > limit:
					verdict = wantTooLarge
				case size > uint64(len(s)-pos-vn):
					verdict = wantUnexpected
					st.cutInBody = true
				}
			}
		}
		m := corpus.ByName(typ).New()
		if c.Reuse {
			// the usual read loop keeps one destination: hand UnmarshalFrom a message that still
			// holds what an earlier frame of the same type left in it (a copy, so that the earlier
			// result stays comparable)
			for j := len(got) - 1; j >= 0; j-- {
				if got[j].Descriptor().FullName() == m.Descriptor().FullName() {
					m = proto.Clone(got[j].Interface()).ProtoReflect()
					break
				}
			}
		}
		o := protodelim.UnmarshalOptions{UnmarshalOptions: proto.UnmarshalOptions{AllowPartial: true, NoLazyDecoding: !c.Lazy}, MaxSize: max}
		err := o.UnmarshalFrom(r, m.Interface())
		where := fmt.Sprintf("%s, read %d at offset %d of %d (MaxSize %d, reader %s)", label, i, pos, len(s), max, rs.String())
		switch verdict {
		case wantEOF, wantUnexpected:
			if !rs.broken() {
				break
			}
			// "if r returns a non-io.EOF error, UnmarshalFrom returns it unchanged"
			st.broken++
			if err != errBroken {
				return fmt.Errorf("%s: the reader fails here with its own error: got error %v, want that error unchanged", where, err)
			}
			verdict = wantNothing
		}
		switch verdict {
		case wantNothing:
		case wantEOF:
			st.eof++
			if err != io.EOF {
				return fmt.Errorf("%s: at a clean frame boundary at the end of the stream: got error %v, want io.EOF", where, err)
			}
		case wantUnexpected:
			st.unexpected++
			if err == io.EOF || !errors.Is(err, io.ErrUnexpectedEOF) {
				return fmt.Errorf("%s: stream ends inside a size or body: got error %v, want io.ErrUnexpectedEOF", where, err)
			}
		case wantBadVarint:
			st.badVarint++
			var se *protodelim.SizeTooLargeError
			if err == nil || err == io.EOF || errors.Is(err, io.ErrUnexpectedEOF) || errors.As(err, &se) {
				return fmt.Errorf("%s: size varint does not fit 64 bits (%x): got error %v, want a parse error", where, s[pos:min(len(s), pos+11)], err)
			}
		case wantTooLarge:
			st.tooLarge++
			var se *protodelim.SizeTooLargeError
			if !errors.As(err, &se) {
				return fmt.Errorf("%s: size %d exceeds the limit: got error %v, want *SizeTooLargeError", where, size, err)
			}
			if se.Size != size {
				return fmt.Errorf("%s: SizeTooLargeError.Size = %d, size in the stream is %d", where, se.Size, size)
			}
			if limit, unlimited := limitOf(max); !unlimited && se.MaxSize != limit {
				return fmt.Errorf("%s: SizeTooLargeError.MaxSize = %d, effective limit is %d", where, se.MaxSize, limit)
			} else if unlimited && se.MaxSize >= size {
				return fmt.Errorf("%s: SizeTooLargeError{Size: %d, MaxSize: %d}: size does not exceed the reported limit", where, se.Size, se.MaxSize)
			}
		default:
			if err != nil {
				return fmt.Errorf("%s: complete frame of %d bytes: got error %v", where, size, err)
			}
			st.frames++
			if i >= len(want) {
				return fmt.Errorf("harness: %s: more frames than messages", where)
			}
			got = append(got, m)
			pos += vn + int(size)
			continue
		}
		break
	}
	if br != nil {
		scribble(br)
	}
	for i, m := range got {
		md := m.Descriptor()
		if d := model.Diff(md, want[i], model.Snapshot(m), model.EqualOpts{BitwiseFloats: true}, nil); d != "" {
			return fmt.Errorf("%s (reader %s): message %d of %d read back differs from what was written (after the reader's buffer was reused): %s", label, rs.String(), i, len(got), d)
		}
		if !proto.Equal(orig[i].Interface(), m.Interface()) {
			return fmt.Errorf("%s (reader %s): message %d read back is not proto.Equal to the one written", label, rs.String(), i)
		}
	}
	return nil
}

func (rs readerSpec) broken() bool {
	return rs.Broken && (rs.Kind == "short" || rs.Kind == "bufio" && rs.Under == "short")
}

func (rs readerSpec) String() string {
	switch rs.Kind {
	case "bufio":
		s := fmt.Sprintf("bufio(%d) over %s", rs.Buf, rs.Under)
		if rs.Under == "short" {
			s += fmt.Sprintf("%v broken=%v", rs.Chunks, rs.Broken)
		}
		return s
	case "short":
		return fmt.Sprintf("short%v eofWithData=%v broken=%v", rs.Chunks, rs.EOFWithData, rs.Broken)
	}
	return rs.Kind
}

// ---- writer ---------------------------------------------------------------------------------------

var errWriter = errors.New("c27: writer is full")

type limitWriter struct {
	buf   bytes.Buffer
	limit int // < 0: never fails
}

func (w *limitWriter) Write(p []byte) (int, error) {
	if w.limit >= 0 && w.buf.Len()+len(p) > w.limit {
		n := w.limit - w.buf.Len()
		w.buf.Write(p[:n])
		return n, errWriter
	}
	return w.buf.Write(p)
}

// ---- one case ---------------------------------------------------------------------------------------

type built struct {
	want []*model.Msg
	orig []protoreflect.Message
	a    []byte // stream written by MarshalTo
	b    []byte // reference stream
}

func build(c *streamCase) (*built, error) {
	out := &built{}
	mo := protodelim.MarshalOptions{MarshalOptions: proto.MarshalOptions{AllowPartial: true, Deterministic: c.Det}}
	w := &limitWriter{limit: -1}
	for i, f := range c.Frames {
		mt := corpus.ByName(f.typ())
		m := mt.New()
		if err := model.Apply(m, f.content(), nil); err != nil {
			return nil, fmt.Errorf("harness: %v", err)
		}
		out.want = append(out.want, f.content())
		out.orig = append(out.orig, m)
		before := w.buf.Len()
		n, err := mo.MarshalTo(w, m.Interface())
		if err != nil {
			return nil, fmt.Errorf("MarshalTo(frame %d) failed: %v", i, err)
		}
		chunk := w.buf.Bytes()[before:]
		if n != len(chunk) {
			return nil, fmt.Errorf("MarshalTo(frame %d) = %d, but %d bytes were written", i, n, len(chunk))
		}
		// the independent framing: shortest varint of the body length, then a body that is a
		// well-formed encoding of exactly this message
		sz, vn, d := ref.ConsumeVarint(chunk)
		if d != ref.OK || sz != uint64(len(chunk)-vn) {
			return nil, fmt.Errorf("MarshalTo(frame %d): %d bytes written do not start with the varint of the body length (prefix %x)", i, len(chunk), chunk[:min(len(chunk), 11)])
		}
		if vn != ref.VarintLen(sz) {
			return nil, fmt.Errorf("MarshalTo(frame %d): size %d written in %d bytes, shortest form has %d", i, sz, vn, ref.VarintLen(sz))
		}
		if _, ok := ref.Split(chunk[vn:]); !ok {
			return nil, fmt.Errorf("MarshalTo(frame %d): body is not a well-formed field sequence", i)
		}
		if f.Craft >= 0 && int(sz) != craftSize(f.Craft) {
			return nil, fmt.Errorf("MarshalTo(frame %d): body has %d bytes, the reference encoding of the same content has %d", i, sz, craftSize(f.Craft))
		}
		m2 := mt.New()
		if err := (proto.UnmarshalOptions{AllowPartial: true}).Unmarshal(chunk[vn:], m2.Interface()); err != nil {
			return nil, fmt.Errorf("MarshalTo(frame %d): body does not decode: %v", i, err)
		}
		if d := model.Diff(mt.Descriptor(), f.content(), model.Snapshot(m2), model.EqualOpts{BitwiseFloats: true}, nil); d != "" {
			return nil, fmt.Errorf("MarshalTo(frame %d): body decodes to different content: %s", i, d)
		}
	}
	out.a = append([]byte(nil), w.buf.Bytes()...)
	out.b = refStream(c)
	return out, nil
}

// checkWriter: "If w returns an error, MarshalTo returns it unchanged"; the count is what w took.
func checkWriter(c *streamCase, bt *built) error {
	if c.WFail < 0 {
		return nil
	}
	mo := protodelim.MarshalOptions{MarshalOptions: proto.MarshalOptions{AllowPartial: true, Deterministic: c.Det}}
	w := &limitWriter{limit: c.WFail}
	for i, m := range bt.orig {
		before := w.buf.Len()
		n, err := mo.MarshalTo(w, m.Interface())
		took := w.buf.Len() - before
		if n != took {
			return fmt.Errorf("MarshalTo(frame %d) into a writer that fails after %d bytes = (%d, %v), the writer took %d bytes", i, c.WFail, n, err, took)
		}
		if err != nil {
			if err != errWriter {
				return fmt.Errorf("MarshalTo(frame %d) returned %v, want the writer's own error unchanged", i, err)
			}
			if w.buf.Len() != c.WFail {
				return fmt.Errorf("harness: writer failed before its limit")
			}
			if !bytes.HasPrefix(bt.a, w.buf.Bytes()[:before]) && c.Det {
				return fmt.Errorf("bytes written before the failure differ from the stream written without failure")
			}
			return nil
		}
	}
	if len(bt.a) > c.WFail {
		return fmt.Errorf("writer with room for %d bytes took a stream of %d bytes without error", c.WFail, len(bt.a))
	}
	return nil
}

func cutTo(s []byte, cut int) []byte {
	if cut < 0 || cut > len(s) {
		return s
	}
	return s[:cut:cut]
}

func checkStream(c streamCase) error {
	_, err := checkStreamStats(&c)
	return err
}

func checkStreamStats(c *streamCase) (*readStats, error) {
	st := &readStats{}
	bt, err := build(c)
	if err != nil {
		return st, err
	}
	if err := checkWriter(c, bt); err != nil {
		return st, err
	}
	a := bt.a
	if c.CutA >= 0 {
		a = cutTo(a, c.CutA%(len(a)+1))
	}
	// MarshalTo's stream carries no tail: reads past the last frame use the tail mode harmlessly
	ca := *c
	ca.Tail = ""
	if err := readBack("stream written by MarshalTo", a, &ca, c.Reader, bt.want, bt.orig, st); err != nil {
		return st, err
	}
	if err := readBack("reference stream", cutTo(bt.b, c.Cut), c, c.Reader, bt.want, bt.orig, st); err != nil {
		return st, err
	}
	return st, nil
}
