package c39

import (
	"bytes"
	"fmt"
	"math"
	"math/big"
	"reflect"
	"runtime"
	"sort"
	"strconv"
	"sync"
	"sync/atomic"
	"testing"
	"unicode/utf8"

	"google.golang.org/protobuf/internal/encoding/defval"
	"google.golang.org/protobuf/internal/encoding/tag"
	"google.golang.org/protobuf/internal/filedesc"
	"google.golang.org/protobuf/proto"
	"google.golang.org/protobuf/reflect/protodesc"
	"google.golang.org/protobuf/reflect/protoreflect"
	"google.golang.org/protobuf/reflect/protoregistry"
	"google.golang.org/protobuf/types/descriptorpb"
	"google.golang.org/protobuf/zverif/gen"
	"google.golang.org/protobuf/zverif/pbt"
	"google.golang.org/protobuf/zverif/ref"
	"pgregory.net/rapid"
)

const kfFloat32 = "KF-float32-double-rounding"

// =================================================================================================
// values

// scalarCase is one (kind, format, value). Bits carries integers (two's complement, truncated to the
// kind's width), bool (0/1) and float bit patterns; Str carries string/bytes contents.
type scalarCase struct {
	Kind   int // protoreflect.Kind
	Format int // 1 = defval.Descriptor, 2 = defval.GoTag
	Bits   uint64
	Str    []byte
}

var scalarKinds = []protoreflect.Kind{
	protoreflect.BoolKind, protoreflect.Int32Kind, protoreflect.Sint32Kind, protoreflect.Sfixed32Kind, protoreflect.Uint32Kind, protoreflect.Fixed32Kind,
	protoreflect.Int64Kind, protoreflect.Sint64Kind, protoreflect.Sfixed64Kind, protoreflect.Uint64Kind, protoreflect.Fixed64Kind,
	protoreflect.FloatKind, protoreflect.DoubleKind, protoreflect.StringKind, protoreflect.BytesKind,
}

func valueOf(k protoreflect.Kind, bits uint64, str []byte) protoreflect.Value {
	switch k {
	case protoreflect.BoolKind:
		return protoreflect.ValueOfBool(bits&1 != 0)
	case protoreflect.Int32Kind, protoreflect.Sint32Kind, protoreflect.Sfixed32Kind:
		return protoreflect.ValueOfInt32(int32(uint32(bits)))
	case protoreflect.Uint32Kind, protoreflect.Fixed32Kind:
		return protoreflect.ValueOfUint32(uint32(bits))
	case protoreflect.Int64Kind, protoreflect.Sint64Kind, protoreflect.Sfixed64Kind:
		return protoreflect.ValueOfInt64(int64(bits))
	case protoreflect.Uint64Kind, protoreflect.Fixed64Kind:
		return protoreflect.ValueOfUint64(bits)
	case protoreflect.FloatKind:
		return protoreflect.ValueOfFloat32(math.Float32frombits(uint32(bits)))
	case protoreflect.DoubleKind:
		return protoreflect.ValueOfFloat64(math.Float64frombits(bits))
	case protoreflect.StringKind:
		return protoreflect.ValueOfString(string(str))
	case protoreflect.BytesKind:
		return protoreflect.ValueOfBytes(append([]byte(nil), str...))
	}
	panic(fmt.Sprintf("HARNESS: kind %v", k))
}

// sameValue compares a value produced by the implementation with the intended one: exact Go type,
// bit-for-bit floats (every NaN in one class), byte-for-byte strings.
func sameValue(k protoreflect.Kind, got protoreflect.Value, bits uint64, str []byte) error {
	if !got.IsValid() {
		return fmt.Errorf("invalid (zero) Value")
	}
	want := valueOf(k, bits, str)
	gi, wi := got.Interface(), want.Interface()
	if reflect.TypeOf(gi) != reflect.TypeOf(wi) {
		return fmt.Errorf("Go type %T, want %T", gi, wi)
	}
	switch k {
	case protoreflect.FloatKind:
		g, w := gi.(float32), wi.(float32)
		if g != g && w != w {
			return nil
		}
		if math.Float32bits(g) != math.Float32bits(w) {
			return fmt.Errorf("float32 bits %#08x (%v), want %#08x (%v)", math.Float32bits(g), g, math.Float32bits(w), w)
		}
	case protoreflect.DoubleKind:
		g, w := gi.(float64), wi.(float64)
		if g != g && w != w {
			return nil
		}
		if math.Float64bits(g) != math.Float64bits(w) {
			return fmt.Errorf("float64 bits %#016x (%v), want %#016x (%v)", math.Float64bits(g), g, math.Float64bits(w), w)
		}
	case protoreflect.BytesKind:
		if !bytes.Equal(gi.([]byte), wi.([]byte)) {
			return fmt.Errorf("bytes %x, want %x", gi, wi)
		}
	default:
		if gi != wi {
			return fmt.Errorf("%v, want %v", gi, wi)
		}
	}
	return nil
}

// refParse reads the textual default s by the documented meaning of
// FieldDescriptorProto.default_value (descriptor.proto: numbers in their text representation, booleans
// "true"/"false", strings verbatim, bytes C-escaped with every byte >= 128 escaped) and of the Go struct
// tag form (booleans 1/0), independently of package defval: math/big for integers, strconv at the
// kind's own width for floats, the reference C-unescaper for bytes. It returns the value as (bits, str).
func refParse(k protoreflect.Kind, f int, s string) (bits uint64, str []byte, err error) {
	integer := func(lo, hi *big.Int) (uint64, error) {
		n, ok := new(big.Int).SetString(s, 10)
		if !ok || (len(s) > 0 && s[0] == '+') {
			return 0, fmt.Errorf("not a decimal integer: %q", s)
		}
		if n.Cmp(lo) < 0 || n.Cmp(hi) > 0 {
			return 0, fmt.Errorf("integer %q out of range", s)
		}
		if n.Sign() < 0 {
			return uint64(n.Int64()), nil
		}
		return n.Uint64(), nil
	}
	two := func(e uint) *big.Int { return new(big.Int).Lsh(big.NewInt(1), e) }
	neg := func(x *big.Int) *big.Int { return new(big.Int).Neg(x) }
	m1 := func(x *big.Int) *big.Int { return new(big.Int).Sub(x, big.NewInt(1)) }
	switch k {
	case protoreflect.BoolKind:
		t, fl := "true", "false"
		if f == int(defval.GoTag) {
			t, fl = "1", "0"
		}
		switch s {
		case t:
			return 1, nil, nil
		case fl:
			return 0, nil, nil
		}
		return 0, nil, fmt.Errorf("not a boolean in this format: %q", s)
	case protoreflect.Int32Kind, protoreflect.Sint32Kind, protoreflect.Sfixed32Kind:
		v, err := integer(neg(two(31)), m1(two(31)))
		return uint64(uint32(v)), nil, err
	case protoreflect.Uint32Kind, protoreflect.Fixed32Kind:
		v, err := integer(big.NewInt(0), m1(two(32)))
		return v, nil, err
	case protoreflect.Int64Kind, protoreflect.Sint64Kind, protoreflect.Sfixed64Kind:
		v, err := integer(neg(two(63)), m1(two(63)))
		return v, nil, err
	case protoreflect.Uint64Kind, protoreflect.Fixed64Kind:
		v, err := integer(big.NewInt(0), m1(two(64)))
		return v, nil, err
	case protoreflect.FloatKind, protoreflect.DoubleKind:
		size := 64
		if k == protoreflect.FloatKind {
			size = 32
		}
		var v float64
		switch s {
		case "inf":
			v = math.Inf(1)
		case "-inf":
			v = math.Inf(-1)
		case "nan":
			v = math.NaN()
		default:
			v, err = strconv.ParseFloat(s, size) // correctly rounded at the kind's own width
			if err != nil {
				return 0, nil, err
			}
		}
		if size == 32 {
			return uint64(math.Float32bits(float32(v))), nil, nil // exact: v is already a float32 value
		}
		return math.Float64bits(v), nil, nil
	case protoreflect.StringKind:
		return 0, []byte(s), nil
	case protoreflect.BytesKind:
		for i := 0; i < len(s); i++ {
			if s[i] < 0x20 || s[i] > 0x7e {
				return 0, nil, fmt.Errorf("bytes default %q has an unescaped byte %#02x", s, s[i])
			}
		}
		b, err := ref.TextUnquote([]byte(`"` + s + `"`))
		return 0, b, err
	}
	return 0, nil, fmt.Errorf("HARNESS: kind %v", k)
}

// doubleRounded reports whether parsing s the way the implementation does (at 64 bits, then
// narrowing) differs from the correctly rounded float32, and returns the doubly rounded bits.
func doubleRounded(s string) (bool, uint32) {
	v64, err := strconv.ParseFloat(s, 64)
	if err != nil {
		return false, 0
	}
	v32, err := strconv.ParseFloat(s, 32)
	if err != nil {
		return false, 0
	}
	a, b := math.Float32bits(float32(v64)), math.Float32bits(float32(v32))
	return a != b, a
}

func sameBits(k protoreflect.Kind, a, b uint64) bool {
	switch k {
	case protoreflect.FloatKind:
		x, y := math.Float32frombits(uint32(a)), math.Float32frombits(uint32(b))
		return uint32(a) == uint32(b) || (x != x && y != y)
	case protoreflect.DoubleKind:
		x, y := math.Float64frombits(a), math.Float64frombits(b)
		return a == b || (x != x && y != y)
	}
	return a == b
}

func checkScalar(c scalarCase) error {
	k, f := protoreflect.Kind(c.Kind), defval.Format(c.Format)
	v := valueOf(k, c.Bits, c.Str)
	s, err := defval.Marshal(v, nil, k, f)
	if err != nil {
		return fmt.Errorf("Marshal(%v %v, format %d): %v", k, v, f, err)
	}
	// (a) what Marshal wrote denotes the value (independent reader)
	rb, rs, err := refParse(k, c.Format, s)
	if err != nil {
		return fmt.Errorf("Marshal(%v bits %#x str %x, format %d) = %q: reference reader: %v", k, c.Bits, c.Str, f, s, err)
	}
	wb := c.Bits
	switch k {
	case protoreflect.BoolKind:
		wb &= 1
	case protoreflect.Int32Kind, protoreflect.Sint32Kind, protoreflect.Sfixed32Kind, protoreflect.Uint32Kind, protoreflect.Fixed32Kind, protoreflect.FloatKind:
		wb = uint64(uint32(wb))
	case protoreflect.StringKind, protoreflect.BytesKind:
		wb = 0
	}
	if k == protoreflect.StringKind || k == protoreflect.BytesKind {
		if !bytes.Equal(rs, c.Str) {
			return fmt.Errorf("Marshal(%v %x, format %d) = %q, which denotes %x", k, c.Str, f, s, rs)
		}
	} else if !sameBits(k, rb, wb) {
		return fmt.Errorf("Marshal(%v bits %#x, format %d) = %q, which denotes bits %#x", k, wb, f, s, rb)
	}
	// (b) Unmarshal(Marshal(v)) == v
	got, ev, err := defval.Unmarshal(s, k, nil, f)
	if err != nil {
		return fmt.Errorf("Unmarshal(%q, %v, format %d): %v (value bits %#x str %x)", s, k, f, err, c.Bits, c.Str)
	}
	if ev != nil {
		return fmt.Errorf("Unmarshal(%q, %v) returned an enum value descriptor", s, k)
	}
	if err := sameValue(k, got, c.Bits, c.Str); err != nil {
		hint := ""
		if k == protoreflect.FloatKind {
			if dr, bits := doubleRounded(s); dr && math.Float32bits(float32(got.Float())) == bits {
				hint = " (the result of parsing at 64 bits and then narrowing: " + kfFloat32 + " is back)"
			}
		}
		return fmt.Errorf("Unmarshal(Marshal(v)) != v for %v, format %d, text %q: got %v%s", k, f, s, err, hint)
	}
	return nil
}

func sigDigits(s string) int {
	n := 0
	lead := true
	for i := 0; i < len(s); i++ {
		c := s[i]
		if c == 'e' || c == 'E' {
			break
		}
		if c >= '0' && c <= '9' {
			if lead && c == '0' {
				continue
			}
			lead = false
			n++
		}
	}
	return n
}

func nonPrintable(b []byte) bool {
	for _, c := range b {
		if c < 0x20 || c > 0x7e || c == '"' || c == '\'' || c == '\\' {
			return true
		}
	}
	return false
}

func scalarNonTrivial(c scalarCase) bool {
	k := protoreflect.Kind(c.Kind)
	switch k {
	case protoreflect.StringKind, protoreflect.BytesKind:
		return nonPrintable(c.Str)
	case protoreflect.BoolKind:
		return false
	}
	s, err := defval.Marshal(valueOf(k, c.Bits, c.Str), nil, k, defval.Format(c.Format))
	return err == nil && sigDigits(s) >= 8
}

func scalarClasses(c scalarCase) []string {
	k := protoreflect.Kind(c.Kind)
	cls := []string{k.String(), map[int]string{1: "fmt-Descriptor", 2: "fmt-GoTag"}[c.Format]}
	switch k {
	case protoreflect.FloatKind, protoreflect.DoubleKind:
		var f float64
		var sub bool
		if k == protoreflect.FloatKind {
			x := math.Float32frombits(uint32(c.Bits))
			f = float64(x)
			sub = x != 0 && uint32(c.Bits)&0x7f800000 == 0
		} else {
			f = math.Float64frombits(c.Bits)
			sub = f != 0 && c.Bits&0x7ff0000000000000 == 0
		}
		switch {
		case f != f:
			cls = append(cls, "float-nan")
		case math.IsInf(f, 0):
			cls = append(cls, "float-inf")
		case f == 0 && math.Signbit(f):
			cls = append(cls, "float-negzero")
		case f == 0:
			cls = append(cls, "float-zero")
		case sub:
			cls = append(cls, "float-subnormal")
		default:
			cls = append(cls, "float-normal")
		}
	case protoreflect.BytesKind, protoreflect.StringKind:
		switch {
		case len(c.Str) == 0:
			cls = append(cls, "str-empty")
		case !utf8.Valid(c.Str):
			cls = append(cls, "str-invalid-utf8")
		case nonPrintable(c.Str):
			cls = append(cls, "str-escapes-needed")
		default:
			cls = append(cls, "str-plain")
		}
	case protoreflect.BoolKind:
	default:
		if int64(c.Bits) < 0 && (k == protoreflect.Int64Kind || k == protoreflect.Sint64Kind || k == protoreflect.Sfixed64Kind) || int32(uint32(c.Bits)) < 0 && (k == protoreflect.Int32Kind || k == protoreflect.Sint32Kind || k == protoreflect.Sfixed32Kind) {
			cls = append(cls, "int-negative")
		}
	}
	return cls
}

func drawScalar(t *rapid.T) scalarCase {
	k := rapid.SampledFrom(scalarKinds).Draw(t, "kind")
	c := scalarCase{Kind: int(k), Format: rapid.IntRange(1, 2).Draw(t, "format")}
	switch k {
	case protoreflect.BoolKind:
		c.Bits = uint64(rapid.IntRange(0, 1).Draw(t, "bool"))
	case protoreflect.Int32Kind, protoreflect.Sint32Kind, protoreflect.Sfixed32Kind:
		c.Bits = uint64(uint32(gen.Int32().Draw(t, "i32")))
	case protoreflect.Uint32Kind, protoreflect.Fixed32Kind:
		c.Bits = uint64(gen.Uint32().Draw(t, "u32"))
	case protoreflect.Int64Kind, protoreflect.Sint64Kind, protoreflect.Sfixed64Kind:
		c.Bits = uint64(gen.Int64().Draw(t, "i64"))
	case protoreflect.Uint64Kind, protoreflect.Fixed64Kind:
		c.Bits = gen.Uint64().Draw(t, "u64")
	case protoreflect.FloatKind:
		c.Bits = uint64(gen.Float32Bits().Draw(t, "f32"))
	case protoreflect.DoubleKind:
		c.Bits = gen.Float64Bits().Draw(t, "f64")
	case protoreflect.StringKind:
		if rapid.Bool().Draw(t, "validstr") {
			c.Str = []byte(gen.ValidString(200).Draw(t, "str"))
		} else {
			c.Str = gen.Bytes(200).Draw(t, "str")
		}
	case protoreflect.BytesKind:
		if rapid.IntRange(0, 2).Draw(t, "rawbytes") == 0 {
			c.Str = rapid.SliceOfN(rapid.Byte(), 0, 200).Draw(t, "bytes")
		} else {
			c.Str = gen.Bytes(200).Draw(t, "bytes")
		}
	}
	return c
}

func TestScalar(t *testing.T) {
	pbt.Run(t, pbt.Prop[scalarCase]{
		Name: "scalar",
		Rule: "kind drawn from the 15 scalar kinds x format {Descriptor, GoTag} x boundary-biased value (gen.Int32/Int64/Uint32/Uint64/Float32Bits/Float64Bits incl. NaN payloads, -0, subnormals, the double-rounding patterns; valid and invalid UTF-8 strings; bytes <= 200 with arbitrary content); Marshal output read by an independent reader (math/big, strconv at the kind's width, reference C-unescaper) and by Unmarshal; non-trivial = text form with >= 8 significant digits, or string/bytes needing escapes",
		Draw: drawScalar, Check: checkScalar, NonTrivial: scalarNonTrivial, Classes: scalarClasses,
		Quick: 200000, Thorough: 2500000,
	})
}

func TestBytesExhaustive(t *testing.T) {
	if pbt.Shard != 0 && pbt.ReplayPath == "" {
		t.Skip("fixed enumeration: shard 0 only")
	}
	pbt.Enumerate(t, "bytes-exhaustive",
		"every 0-, 1- and 2-byte bytes value, every 3-byte value over 20 escape-relevant bytes, both formats; also as string kind; non-trivial = needs an escape",
		true,
		func(yield func(scalarCase, bool) bool) {
			emit := func(s []byte) bool {
				for f := 1; f <= 2; f++ {
					if !yield(scalarCase{Kind: int(protoreflect.BytesKind), Format: f, Str: append([]byte(nil), s...)}, nonPrintable(s)) {
						return false
					}
				}
				return yield(scalarCase{Kind: int(protoreflect.StringKind), Format: 1 + len(s)%2, Str: append([]byte(nil), s...)}, nonPrintable(s))
			}
			if !emit(nil) {
				return
			}
			for a := 0; a < 256; a++ {
				if !emit([]byte{byte(a)}) {
					return
				}
			}
			for a := 0; a < 256; a++ {
				for b := 0; b < 256; b++ {
					if !emit([]byte{byte(a), byte(b)}) {
						return
					}
				}
			}
			edge := []byte{0, 1, 7, 8, 9, 10, 13, 0x1f, '"', '\'', '\\', '0', '7', '8', 'x', 'n', 0x7f, 0x80, 0xc2, 0xff}
			for _, a := range edge {
				for _, b := range edge {
					for _, c := range edge {
						if !emit([]byte{a, b, c}) {
							return
						}
					}
				}
			}
		}, checkScalar)
}

func TestIntBoundaries(t *testing.T) {
	if pbt.Shard != 0 && pbt.ReplayPath == "" {
		t.Skip("fixed enumeration: shard 0 only")
	}
	pbt.Enumerate(t, "int-boundaries",
		"every integer kind x both formats x every 2^k-1, 2^k, 2^k+1, -(2^k)-1, -(2^k), -(2^k)+1 (k = 0..64, truncated to the kind), powers of ten +-1; bools; non-trivial = >= 8 significant digits",
		true,
		func(yield func(scalarCase, bool) bool) {
			var vals []uint64
			for k := 0; k <= 64; k++ {
				var base uint64
				if k < 64 {
					base = 1 << uint(k)
				}
				for d := int64(-1); d <= 1; d++ {
					vals = append(vals, base+uint64(d), -(base)+uint64(d))
				}
			}
			p := uint64(1)
			for i := 0; i < 20; i++ {
				vals = append(vals, p-1, p, p+1, -p-1, -p, -p+1)
				p *= 10
			}
			for _, k := range scalarKinds[:11] {
				for f := 1; f <= 2; f++ {
					for _, v := range vals {
						c := scalarCase{Kind: int(k), Format: f, Bits: v}
						if !yield(c, scalarNonTrivial(c)) {
							return
						}
					}
				}
			}
		}, checkScalar)
}

// =================================================================================================
// float32 sweep and bulk samples

type splitmix uint64

func (s *splitmix) next() uint64 {
	*s += 0x9e3779b97f4a7c15
	z := uint64(*s)
	z = (z ^ z>>30) * 0xbf58476d1ce4e5b9
	z = (z ^ z>>27) * 0x94d049bb133111eb
	return z ^ z>>31
}

// float32Range round-trips every pattern produced by at(i), i in [0, n), on all CPUs. It returns the
// patterns that did not survive (bad). The Descriptor format is used for every pattern, the GoTag
// format for every eighth.
func float32Range(n uint64, at func(i uint64) uint32) (bad []uint32, goTag int64) {
	workers := runtime.NumCPU()
	var mu sync.Mutex
	var stop atomic.Bool
	var nGoTag atomic.Int64
	var wg sync.WaitGroup
	chunk := (n + uint64(workers) - 1) / uint64(workers)
	for w := 0; w < workers; w++ {
		lo, hi := uint64(w)*chunk, uint64(w+1)*chunk
		if hi > n {
			hi = n
		}
		if lo >= hi {
			continue
		}
		wg.Add(1)
		go func(lo, hi uint64) {
			defer wg.Done()
			var tagged int64
			for i := lo; i < hi && !stop.Load(); i++ {
				bits := at(i)
				f := math.Float32frombits(bits)
				v := protoreflect.ValueOfFloat32(f)
				formats := [2]defval.Format{defval.Descriptor, 0}
				if bits&7 == 0 {
					formats[1] = defval.GoTag
					tagged++
				}
				for _, fm := range formats {
					if fm == 0 {
						continue
					}
					s, err := defval.Marshal(v, nil, protoreflect.FloatKind, fm)
					ok := err == nil
					var gb uint32
					if ok {
						// independent reading of Marshal's text at 32 bits
						rb, _, rerr := refParse(protoreflect.FloatKind, int(fm), s)
						ok = rerr == nil && sameBits(protoreflect.FloatKind, rb, uint64(bits))
					}
					if ok {
						got, _, uerr := defval.Unmarshal(s, protoreflect.FloatKind, nil, fm)
						if uerr != nil {
							ok = false
						} else if g, isF32 := got.Interface().(float32); !isF32 {
							ok = false
						} else {
							gb = math.Float32bits(g)
							ok = sameBits(protoreflect.FloatKind, uint64(gb), uint64(bits))
						}
					}
					if !ok {
						mu.Lock()
						bad = append(bad, bits)
						if len(bad) > 64 {
							stop.Store(true)
						}
						mu.Unlock()
						break
					}
				}
			}
			nGoTag.Add(tagged)
		}(lo, hi)
	}
	wg.Wait()
	sort.Slice(bad, func(i, j int) bool { return bad[i] < bad[j] })
	return bad, nGoTag.Load()
}

func reportFloat32(t *testing.T, sub string, bad []uint32) bool {
	if len(bad) == 0 {
		return true
	}
	hexes := make([]string, 0, len(bad))
	for _, b := range bad {
		hexes = append(hexes, fmt.Sprintf("%#08x", b))
	}
	c := scalarCase{Kind: int(protoreflect.FloatKind), Format: 1, Bits: uint64(bad[0])}
	err := checkScalar(c)
	if err == nil {
		c.Format = 2
		err = checkScalar(c)
	}
	if err == nil {
		err = fmt.Errorf("pattern %#08x failed in the sweep but not in the single check", bad[0])
	}
	pbt.ReportViolation(t, "scalar", c, fmt.Errorf("%s: float32 patterns %v do not survive the default-value round trip; first: %v", sub, hexes, err))
	return false
}

func TestFloat32Sweep(t *testing.T) {
	if pbt.ReplayPath != "" {
		t.Skip("replay mode")
	}
	if pbt.Thorough() {
		// all 2^32 patterns, split over the shards; goroutines inside the shard
		total := uint64(1) << 32
		ns := uint64(pbt.NShards)
		lo := total / ns * uint64(pbt.Shard)
		hi := total / ns * uint64(pbt.Shard+1)
		if uint64(pbt.Shard) == ns-1 {
			hi = total
		}
		bad, tagged := float32Range(hi-lo, func(i uint64) uint32 { return uint32(lo + i) })
		if !reportFloat32(t, "float32-sweep", bad) {
			return
		}
		pbt.Count("float32-sweep", int64(hi-lo)+tagged, int64(hi-lo), fmt.Sprintf("every float32 bit pattern in [%#08x, %#08x) (this shard; the %d shards cover all 2^32) through defval.Marshal -> {32-bit reference parse, defval.Unmarshal}, Descriptor format for all and GoTag for every eighth; bit-for-bit, all NaNs one class", lo, hi-1, ns),
			true, map[string]any{"from": fmt.Sprintf("%#08x", lo), "to": fmt.Sprintf("%#08x", hi-1)})
		return
	}
	// quick: a seed-dependent odd-stride walk (distinct patterns) + windows around the known patterns
	n := uint64(pbt.N(5000000, 5000000))
	seed := pbt.DeriveSeed("float32-sample")
	start := uint32(seed)
	const stride = 0x9e3779b1
	bad, tagged := float32Range(n, func(i uint64) uint32 { return start + uint32(i)*stride })
	if !reportFloat32(t, "float32-sample", bad) {
		return
	}
	const win = 1 << 15
	centres := []uint32{0x15ae43fd, 0x95ae43fd, 0x00800000, 0x7f7fffff, 0x3f800000, 0x4b800000, 0x5f000000}
	bad2, tagged2 := float32Range(uint64(len(centres))*2*win, func(i uint64) uint32 {
		return centres[i/(2*win)] - win + uint32(i%(2*win))
	})
	if !reportFloat32(t, "float32-windows", bad2) {
		return
	}
	pbt.Count("float32-sample", int64(n)+tagged+int64(len(centres))*2*win+tagged2, int64(n), "float32 bit patterns start+i*0x9e3779b1 (start from the seed; all distinct) plus +-2^15 windows around 7 boundary patterns incl. the two double-rounding ones; same oracle as the thorough exhaustive sweep",
		false, map[string]any{"start": fmt.Sprintf("%#08x", start), "stride": "0x9e3779b1", "n": n})
}

// bulk samples of float64 and 64-bit integers (deterministic splitmix stream from the seed)
func TestBulk64(t *testing.T) {
	if pbt.ReplayPath != "" {
		t.Skip("replay mode")
	}
	n := pbt.N(2000000, 4000000)
	workers := runtime.NumCPU()
	per := n / workers
	if per < 1 {
		per = 1
	}
	var mu sync.Mutex
	var firstBad *scalarCase
	var firstErr error
	var wg sync.WaitGroup
	var nt atomic.Int64
	base := pbt.DeriveSeed("bulk64")
	for w := 0; w < workers; w++ {
		wg.Add(1)
		go func(w int) {
			defer wg.Done()
			rng := splitmix(base + uint64(w)*0x632be59bd9b4e019)
			var local int64
			for i := 0; i < per; i++ {
				x := rng.next()
				sel := rng.next()
				// exponent-uniform doubles half of the time (uniform bits are almost always huge/tiny normals)
				fb := x
				if sel&1 == 0 {
					fb = x&^(0x7ff<<52) | (1023-64+(sel>>8)%128)<<52
				}
				cases := [4]scalarCase{
					{Kind: int(protoreflect.DoubleKind), Format: 1 + int(sel>>1&1), Bits: fb},
					{Kind: int(protoreflect.Int64Kind), Format: 1 + int(sel>>2&1), Bits: x >> (sel >> 16 % 64)},
					{Kind: int(protoreflect.Sint64Kind), Format: 1 + int(sel>>3&1), Bits: -(x >> (sel >> 24 % 64))},
					{Kind: int(protoreflect.Fixed64Kind), Format: 1 + int(sel>>4&1), Bits: x >> (sel >> 32 % 64)},
				}
				for _, c := range cases {
					if err := checkScalar(c); err != nil {
						mu.Lock()
						if firstBad == nil {
							cc := c
							firstBad, firstErr = &cc, err
						}
						mu.Unlock()
						return
					}
				}
				local += 4
			}
			nt.Add(local)
		}(w)
	}
	wg.Wait()
	if firstBad != nil {
		pbt.ReportViolation(t, "scalar", *firstBad, firstErr)
		return
	}
	pbt.Count("bulk64", nt.Load(), nt.Load()*3/4, "splitmix stream from the seed: float64 bit patterns (uniform bits / exponent-uniform near 1), int64, negative sint64 and fixed64 values of uniformly drawn bit length, alternating formats; oracle of sub-check scalar; non-trivial (estimate) = >= 8 significant digits", false)
}

// regression witness of KF-float32-double-rounding (fixed in /repo: float32 defaults are parsed at 32 bits).
// pbt.Witness reports a violation if the two patterns change again while the finding is listed as fixed.
func TestWitnessFloat32DoubleRounding(t *testing.T) {
	if pbt.ReplayPath != "" {
		t.Skip("replay mode")
	}
	for _, bits := range []uint32{0x15ae43fd, 0x95ae43fd} {
		f := math.Float32frombits(bits)
		for _, fm := range []defval.Format{defval.Descriptor, defval.GoTag} {
			s, err := defval.Marshal(protoreflect.ValueOfFloat32(f), nil, protoreflect.FloatKind, fm)
			if err != nil {
				t.Fatalf("Marshal: %v", err)
			}
			got, _, err := defval.Unmarshal(s, protoreflect.FloatKind, nil, fm)
			repro := err == nil && math.Float32bits(float32(got.Float())) != bits
			pbt.Witness(t, kfFloat32, repro, fmt.Sprintf("defval.Unmarshal(defval.Marshal(float32 bits %#08x = %s)) = bits %#08x", bits, s, math.Float32bits(float32(got.Float()))))
		}
	}
}

// =================================================================================================
// enums

type enumValue struct {
	Name string
	Num  int32
}

type enumCase struct {
	Values []enumValue
	Pick   int
	Format int
}

func buildEnum(vals []enumValue) (protoreflect.EnumDescriptor, error) {
	ed := &descriptorpb.EnumDescriptorProto{Name: proto.String("E")}
	seen := map[int32]bool{}
	alias := false
	for _, v := range vals {
		ed.Value = append(ed.Value, &descriptorpb.EnumValueDescriptorProto{Name: proto.String(v.Name), Number: proto.Int32(v.Num)})
		if seen[v.Num] {
			alias = true
		}
		seen[v.Num] = true
	}
	if alias {
		ed.Options = &descriptorpb.EnumOptions{AllowAlias: proto.Bool(true)}
	}
	fdp := &descriptorpb.FileDescriptorProto{Name: proto.String("c39/enum.proto"), Package: proto.String("c39"), Syntax: proto.String("proto2"), EnumType: []*descriptorpb.EnumDescriptorProto{ed}}
	fd, err := protodesc.NewFile(fdp, nil)
	if err != nil {
		return nil, err
	}
	return fd.Enums().Get(0), nil
}

func checkEnum(c enumCase) error {
	ed, err := buildEnum(c.Values)
	if err != nil {
		return fmt.Errorf("HARNESS: generated enum rejected by protodesc: %v", err)
	}
	evs := ed.Values()
	want := c.Values[c.Pick%len(c.Values)]
	ev := evs.Get(c.Pick % len(c.Values))
	if string(ev.Name()) != want.Name || int32(ev.Number()) != want.Num {
		return fmt.Errorf("HARNESS: enum value %d is %v=%d, want %v=%d", c.Pick, ev.Name(), ev.Number(), want.Name, want.Num)
	}
	f := defval.Format(c.Format)
	s, err := defval.Marshal(protoreflect.ValueOfEnum(ev.Number()), ev, protoreflect.EnumKind, f)
	if err != nil {
		return fmt.Errorf("Marshal(enum %v=%d, format %d): %v", want.Name, want.Num, f, err)
	}
	// independent reading: identifier in descriptors, decimal number in Go tags
	if f == defval.Descriptor {
		if s != want.Name {
			return fmt.Errorf("Marshal(enum %v=%d, Descriptor) = %q, want the value's name", want.Name, want.Num, s)
		}
	} else if n, ok := new(big.Int).SetString(s, 10); !ok || !n.IsInt64() || n.Int64() != int64(want.Num) {
		return fmt.Errorf("Marshal(enum %v=%d, GoTag) = %q, want the decimal number", want.Name, want.Num, s)
	}
	got, gev, err := defval.Unmarshal(s, protoreflect.EnumKind, evs, f)
	if err != nil {
		return fmt.Errorf("Unmarshal(%q, enum, format %d): %v", s, f, err)
	}
	gn, ok := got.Interface().(protoreflect.EnumNumber)
	if !ok || int32(gn) != want.Num {
		return fmt.Errorf("Unmarshal(%q, enum, format %d) = %v, want number %d", s, f, got.Interface(), want.Num)
	}
	if gev == nil || int32(gev.Number()) != want.Num {
		return fmt.Errorf("Unmarshal(%q, enum, format %d) returned enum value descriptor %v, want one numbered %d", s, f, gev, want.Num)
	}
	if f == defval.Descriptor && string(gev.Name()) != want.Name {
		return fmt.Errorf("Unmarshal(%q, enum, Descriptor) returned descriptor %v, want %v (aliases must keep their name)", s, gev.Name(), want.Name)
	}
	return nil
}

var enumNames = []string{"A", "B", "ZERO", "ONE", "NEG", "inf", "nan", "true", "false", "TRUE", "_", "_1", "x0", "E_", "MIN", "MAX", "a_very_long_enum_value_name_0123456789", "Inf", "e1", "NaN"}

func TestEnum(t *testing.T) {
	pbt.Run(t, pbt.Prop[enumCase]{
		Name: "enum",
		Rule: "proto2 enums of 1..8 values built with protodesc.NewFile: names from a pool incl. inf/nan/true/false look-alikes, numbers boundary-biased over int32 incl. negative, MinInt32/MaxInt32 and aliases (allow_alias); one declared value x both formats through Marshal -> {independent reading, Unmarshal}; non-trivial = negative, alias or >= 8 digits",
		Draw: func(t *rapid.T) enumCase {
			n := rapid.IntRange(1, 8).Draw(t, "n")
			names := rapid.Permutation(enumNames).Draw(t, "names")[:n]
			c := enumCase{Format: rapid.IntRange(1, 2).Draw(t, "format")}
			for i := 0; i < n; i++ {
				var num int32
				if i > 0 && rapid.IntRange(0, 3).Draw(t, "alias?") == 3 {
					num = c.Values[rapid.IntRange(0, i-1).Draw(t, "aliasof")].Num
				} else {
					num = gen.Int32().Draw(t, "num")
				}
				c.Values = append(c.Values, enumValue{Name: names[i], Num: num})
			}
			c.Pick = rapid.IntRange(0, n-1).Draw(t, "pick")
			return c
		},
		Check: checkEnum,
		NonTrivial: func(c enumCase) bool {
			w := c.Values[c.Pick%len(c.Values)]
			if w.Num < 0 || w.Num >= 10000000 {
				return true
			}
			for i, v := range c.Values {
				if i != c.Pick%len(c.Values) && v.Num == w.Num {
					return true
				}
			}
			return false
		},
		Classes: func(c enumCase) []string {
			w := c.Values[c.Pick%len(c.Values)]
			cls := []string{map[int]string{1: "fmt-Descriptor", 2: "fmt-GoTag"}[c.Format]}
			if w.Num < 0 {
				cls = append(cls, "negative")
			}
			for i, v := range c.Values {
				if v.Num == w.Num && i != c.Pick%len(c.Values) {
					if i < c.Pick%len(c.Values) {
						cls = append(cls, "alias-not-first")
					} else {
						cls = append(cls, "alias-first")
					}
					break
				}
			}
			return cls
		},
		Quick: 20000, Thorough: 150000,
	})
}

// =================================================================================================
// end to end: FileDescriptorProto -> protodesc.NewFile -> Default() -> ToFileDescriptorProto -> NewFile,
// the raw-descriptor path of generated code (filedesc.Builder), and the Go struct tag path (internal/encoding/tag)

type fieldSpec struct {
	Kind  int
	Bits  uint64
	Str   []byte
	Style int  // float text style: 0 shortest at the kind's width, 1 shortest with exponent, 2 nine/seventeen significant digits
	Ext   bool // declare as an extension field instead of a message field
}

type descCase struct {
	Fields []fieldSpec
	Enum   []enumValue // used by fields of enum kind: Bits indexes into Enum
}

// refFormat writes a default the way a descriptor producer would, independently of package defval.
func refFormat(fs fieldSpec, enum []enumValue) string {
	k := protoreflect.Kind(fs.Kind)
	switch k {
	case protoreflect.BoolKind:
		if fs.Bits&1 != 0 {
			return "true"
		}
		return "false"
	case protoreflect.EnumKind:
		return enum[int(fs.Bits%uint64(len(enum)))].Name
	case protoreflect.Int32Kind, protoreflect.Sint32Kind, protoreflect.Sfixed32Kind:
		return big.NewInt(int64(int32(uint32(fs.Bits)))).String()
	case protoreflect.Uint32Kind, protoreflect.Fixed32Kind:
		return new(big.Int).SetUint64(uint64(uint32(fs.Bits))).String()
	case protoreflect.Int64Kind, protoreflect.Sint64Kind, protoreflect.Sfixed64Kind:
		return big.NewInt(int64(fs.Bits)).String()
	case protoreflect.Uint64Kind, protoreflect.Fixed64Kind:
		return new(big.Int).SetUint64(fs.Bits).String()
	case protoreflect.FloatKind, protoreflect.DoubleKind:
		var f float64
		size, digits := 64, 17
		if k == protoreflect.FloatKind {
			f, size, digits = float64(math.Float32frombits(uint32(fs.Bits))), 32, 9
		} else {
			f = math.Float64frombits(fs.Bits)
		}
		switch {
		case f != f:
			return "nan"
		case math.IsInf(f, 1):
			return "inf"
		case math.IsInf(f, -1):
			return "-inf"
		}
		switch fs.Style {
		case 1:
			return strconv.FormatFloat(f, 'e', -1, size)
		case 2:
			return strconv.FormatFloat(f, 'e', digits-1, size)
		}
		return strconv.FormatFloat(f, 'g', -1, size)
	case protoreflect.StringKind:
		return string(fs.Str)
	case protoreflect.BytesKind:
		return ref.CEscape(fs.Str)
	}
	panic("HARNESS: kind")
}

var goTypes = map[protoreflect.Kind]reflect.Type{
	protoreflect.BoolKind: reflect.TypeOf(false), protoreflect.EnumKind: reflect.TypeOf(int32(0)),
	protoreflect.Int32Kind: reflect.TypeOf(int32(0)), protoreflect.Sint32Kind: reflect.TypeOf(int32(0)), protoreflect.Sfixed32Kind: reflect.TypeOf(int32(0)),
	protoreflect.Uint32Kind: reflect.TypeOf(uint32(0)), protoreflect.Fixed32Kind: reflect.TypeOf(uint32(0)),
	protoreflect.Int64Kind: reflect.TypeOf(int64(0)), protoreflect.Sint64Kind: reflect.TypeOf(int64(0)), protoreflect.Sfixed64Kind: reflect.TypeOf(int64(0)),
	protoreflect.Uint64Kind: reflect.TypeOf(uint64(0)), protoreflect.Fixed64Kind: reflect.TypeOf(uint64(0)),
	protoreflect.FloatKind: reflect.TypeOf(float32(0)), protoreflect.DoubleKind: reflect.TypeOf(float64(0)),
	protoreflect.StringKind: reflect.TypeOf(""), protoreflect.BytesKind: reflect.TypeOf([]byte(nil)),
}

func buildFile(c descCase) *descriptorpb.FileDescriptorProto {
	fdp := &descriptorpb.FileDescriptorProto{Name: proto.String("c39/defaults.proto"), Package: proto.String("c39"), Syntax: proto.String("proto2")}
	ed := &descriptorpb.EnumDescriptorProto{Name: proto.String("E")}
	seen := map[int32]bool{}
	for _, v := range c.Enum {
		ed.Value = append(ed.Value, &descriptorpb.EnumValueDescriptorProto{Name: proto.String(v.Name), Number: proto.Int32(v.Num)})
		if seen[v.Num] {
			ed.Options = &descriptorpb.EnumOptions{AllowAlias: proto.Bool(true)}
		}
		seen[v.Num] = true
	}
	fdp.EnumType = []*descriptorpb.EnumDescriptorProto{ed}
	md := &descriptorpb.DescriptorProto{Name: proto.String("M"), ExtensionRange: []*descriptorpb.DescriptorProto_ExtensionRange{{Start: proto.Int32(1000), End: proto.Int32(2000)}}}
	for i, fs := range c.Fields {
		k := protoreflect.Kind(fs.Kind)
		f := &descriptorpb.FieldDescriptorProto{
			Name: proto.String(fmt.Sprintf("f%d", i)), Number: proto.Int32(int32(i + 1)),
			Label: descriptorpb.FieldDescriptorProto_LABEL_OPTIONAL.Enum(), Type: descriptorpb.FieldDescriptorProto_Type(k).Enum(),
			DefaultValue: proto.String(refFormat(fs, c.Enum)),
		}
		if k == protoreflect.EnumKind {
			f.TypeName = proto.String(".c39.E")
		}
		if fs.Ext {
			f.Number = proto.Int32(int32(1000 + i))
			f.Extendee = proto.String(".c39.M")
			fdp.Extension = append(fdp.Extension, f)
		} else {
			md.Field = append(md.Field, f)
		}
	}
	fdp.MessageType = []*descriptorpb.DescriptorProto{md}
	return fdp
}

// fieldsOf lists the descriptors of the case's fields in case order.
func fieldsOf(fd protoreflect.FileDescriptor, c descCase) ([]protoreflect.FieldDescriptor, error) {
	var out []protoreflect.FieldDescriptor
	md := fd.Messages().ByName("M")
	if md == nil {
		return nil, fmt.Errorf("message M missing")
	}
	for i, fs := range c.Fields {
		var f protoreflect.FieldDescriptor
		if fs.Ext {
			f = fd.Extensions().ByName(protoreflect.Name(fmt.Sprintf("f%d", i)))
		} else {
			f = md.Fields().ByName(protoreflect.Name(fmt.Sprintf("f%d", i)))
		}
		if f == nil {
			return nil, fmt.Errorf("field f%d missing", i)
		}
		out = append(out, f)
	}
	return out, nil
}

// checkDefault compares fd's default with the intended value of fs.
func checkDefault(fd protoreflect.FieldDescriptor, fs fieldSpec, enum []enumValue) error {
	if !fd.HasDefault() {
		return fmt.Errorf("HasDefault() = false")
	}
	k := protoreflect.Kind(fs.Kind)
	if fd.Kind() != k {
		return fmt.Errorf("kind %v, want %v", fd.Kind(), k)
	}
	if k == protoreflect.EnumKind {
		want := enum[int(fs.Bits%uint64(len(enum)))]
		n, ok := fd.Default().Interface().(protoreflect.EnumNumber)
		if !ok || int32(n) != want.Num {
			return fmt.Errorf("Default() = %v, want enum number %d", fd.Default().Interface(), want.Num)
		}
		ev := fd.DefaultEnumValue()
		if ev == nil || string(ev.Name()) != want.Name || int32(ev.Number()) != want.Num {
			return fmt.Errorf("DefaultEnumValue() = %v, want %s=%d", ev, want.Name, want.Num)
		}
		return nil
	}
	if fd.DefaultEnumValue() != nil {
		return fmt.Errorf("DefaultEnumValue() non-nil for kind %v", k)
	}
	if err := sameValue(k, fd.Default(), fs.Bits, fs.Str); err != nil {
		return fmt.Errorf("Default() = %v", err)
	}
	return nil
}

// snapshot of the defaults of a built file, as comparable (bits,str,enum name) triples
type defSnap struct {
	Bits uint64
	Str  string
	Enum string
	NaN  bool
}

func snap(fd protoreflect.FieldDescriptor) defSnap {
	var s defSnap
	v := fd.Default()
	switch x := v.Interface().(type) {
	case bool:
		if x {
			s.Bits = 1
		}
	case int32:
		s.Bits = uint64(uint32(x))
	case int64:
		s.Bits = uint64(x)
	case uint32:
		s.Bits = uint64(x)
	case uint64:
		s.Bits = x
	case float32:
		s.Bits, s.NaN = uint64(math.Float32bits(x)), x != x
	case float64:
		s.Bits, s.NaN = math.Float64bits(x), x != x
	case string:
		s.Str = x
	case []byte:
		s.Str = string(x)
	case protoreflect.EnumNumber:
		s.Bits = uint64(uint32(x))
	}
	if s.NaN {
		s.Bits = 0
	}
	if ev := fd.DefaultEnumValue(); ev != nil {
		s.Enum = string(ev.Name())
	}
	return s
}

func checkDesc(c descCase) error {
	fdp := buildFile(c)
	fd1, err := protodesc.NewFile(fdp, nil)
	if err != nil {
		return fmt.Errorf("NewFile rejects a file whose defaults are %v: %v", defaultsOf(fdp), err)
	}
	fs1, err := fieldsOf(fd1, c)
	if err != nil {
		return fmt.Errorf("HARNESS: %v", err)
	}
	// the raw-descriptor path used by generated code
	raw, err := proto.Marshal(fdp)
	if err != nil {
		return fmt.Errorf("HARNESS: proto.Marshal(FileDescriptorProto): %v", err)
	}
	fdRaw := filedesc.Builder{RawDescriptor: raw, FileRegistry: new(protoregistry.Files)}.Build().File
	fsRaw, err := fieldsOf(fdRaw, c)
	if err != nil {
		return fmt.Errorf("HARNESS: %v", err)
	}
	for i, fs := range c.Fields {
		k := protoreflect.Kind(fs.Kind)
		def := refFormat(fs, c.Enum)
		for j, fd := range []protoreflect.FieldDescriptor{fs1[i], fsRaw[i]} {
			name := [2]string{"protodesc.NewFile", "filedesc.Builder"}[j]
			// Every spelling used by refFormat denotes exactly one value of the kind (shortest form,
			// shortest with exponent, 9 / 17 significant digits): a correctly rounding reader must
			// return that value.
			if err := checkDefault(fd, fs, c.Enum); err != nil {
				return fmt.Errorf("%s: field f%d (%v, default_value %q): %v", name, i, k, def, err)
			}
		}
		// both construction paths agree in every case
		if a, b := snap(fs1[i]), snap(fsRaw[i]); a != b {
			return fmt.Errorf("field f%d (%v, default_value %q): protodesc.NewFile gives %+v, filedesc.Builder gives %+v", i, k, def, a, b)
		}
	}
	// descriptor round trip: defaults survive ToFileDescriptorProto -> NewFile unchanged
	fdp2 := protodesc.ToFileDescriptorProto(fd1)
	fd2, err := protodesc.NewFile(fdp2, nil)
	if err != nil {
		return fmt.Errorf("NewFile(ToFileDescriptorProto(fd)) fails: %v (defaults written: %v)", err, defaultsOf(fdp2))
	}
	fs2, err := fieldsOf(fd2, c)
	if err != nil {
		return fmt.Errorf("after the descriptor round trip: %v", err)
	}
	fdp3 := protodesc.ToFileDescriptorProto(fdRaw)
	d2, d3 := defaultsOf(fdp2), defaultsOf(fdp3)
	for i, fs := range c.Fields {
		k := protoreflect.Kind(fs.Kind)
		name := fmt.Sprintf("f%d", i)
		s2, ok := d2[name]
		if !ok {
			return fmt.Errorf("ToFileDescriptorProto dropped default_value of %s (%v)", name, k)
		}
		if s3 := d3[name]; s3 != s2 {
			return fmt.Errorf("ToFileDescriptorProto writes default_value %q for %s from protodesc.NewFile but %q from filedesc.Builder", s2, name, s3)
		}
		// the text written by ToFileDescriptorProto denotes fd1's default (independent reader)
		before := snap(fs1[i])
		if k == protoreflect.EnumKind {
			if s2 != before.Enum {
				return fmt.Errorf("ToFileDescriptorProto wrote default_value %q for enum field %s, want %q", s2, name, before.Enum)
			}
		} else {
			rb, rs, err := refParse(k, int(defval.Descriptor), s2)
			if err != nil {
				return fmt.Errorf("ToFileDescriptorProto wrote default_value %q for %s (%v): reference reader: %v", s2, name, k, err)
			}
			if k == protoreflect.StringKind || k == protoreflect.BytesKind {
				if string(rs) != before.Str {
					return fmt.Errorf("ToFileDescriptorProto wrote default_value %q for %s (%v), which denotes %x, Default() was %x", s2, name, k, rs, before.Str)
				}
			} else if !(before.NaN && isNaNBits(k, rb)) && !sameBits(k, rb, before.Bits) {
				return fmt.Errorf("ToFileDescriptorProto wrote default_value %q for %s (%v), which denotes bits %#x, Default() had bits %#x", s2, name, k, rb, before.Bits)
			}
		}
		after := snap(fs2[i])
		if before != after {
			return fmt.Errorf("default of %s (%v) changed on ToFileDescriptorProto/NewFile: %+v -> text %q -> %+v", name, k, before, s2, after)
		}
		if !fs2[i].HasDefault() {
			return fmt.Errorf("HasDefault() of %s lost on the descriptor round trip", name)
		}
		// Go struct tag path (GoTag format): tag.Marshal -> tag.Unmarshal
		var evs protoreflect.EnumValueDescriptors
		if k == protoreflect.EnumKind {
			evs = fs1[i].Enum().Values()
		}
		tg := tag.Marshal(fs1[i], "c39.E")
		tfd := tag.Unmarshal(tg, goTypes[k], evs)
		if !tfd.HasDefault() {
			return fmt.Errorf("struct tag %q (kind %v): default lost (HasDefault() = false after tag.Unmarshal)", tg, k)
		}
		ts := snap(tfd)
		if k == protoreflect.EnumKind {
			// a Go tag carries the number only: aliases resolve to the first value of that number
			if ts.Bits != before.Bits || !tfd.HasDefault() {
				return fmt.Errorf("struct tag %q: enum default number %d, want %d", tg, int32(uint32(ts.Bits)), int32(uint32(before.Bits)))
			}
			continue
		}
		if ts != before || !tfd.HasDefault() || tfd.Kind() != k {
			return fmt.Errorf("struct tag %q (kind %v): default %+v (has=%v, kind %v), want %+v", tg, k, ts, tfd.HasDefault(), tfd.Kind(), before)
		}
	}
	return nil
}

func isNaNBits(k protoreflect.Kind, b uint64) bool {
	if k == protoreflect.FloatKind {
		f := math.Float32frombits(uint32(b))
		return f != f
	}
	f := math.Float64frombits(b)
	return f != f
}

func defaultsOf(fdp *descriptorpb.FileDescriptorProto) map[string]string {
	out := map[string]string{}
	for _, m := range fdp.GetMessageType() {
		for _, f := range m.GetField() {
			if f.DefaultValue != nil {
				out[f.GetName()] = f.GetDefaultValue()
			}
		}
	}
	for _, f := range fdp.GetExtension() {
		if f.DefaultValue != nil {
			out[f.GetName()] = f.GetDefaultValue()
		}
	}
	return out
}

var e2eKinds = append(append([]protoreflect.Kind(nil), scalarKinds...), protoreflect.EnumKind)

func TestDescriptorE2E(t *testing.T) {
	pbt.Run(t, pbt.Prop[descCase]{
		Name: "descriptor-e2e",
		Rule: "proto2 file with an enum (negative numbers, aliases) and message M with 1..8 optional fields / extensions of drawn scalar or enum kinds whose default_value is written by an independent formatter (math/big decimals, strconv floats in three spellings, protoc's CEscape, enum identifiers): protodesc.NewFile and filedesc.Builder (raw-descriptor path of generated code) -> Default()/DefaultEnumValue() vs the intended value; ToFileDescriptorProto text read by the independent reader; NewFile again -> unchanged; internal/encoding/tag Marshal -> Unmarshal (GoTag format); non-trivial = some field has >= 8 significant digits or bytes/string needing escapes or a negative/aliased enum default",
		Draw: func(t *rapid.T) descCase {
			var c descCase
			ne := rapid.IntRange(1, 5).Draw(t, "nenum")
			names := rapid.Permutation(enumNames).Draw(t, "names")[:ne]
			for i := 0; i < ne; i++ {
				var num int32
				if i > 0 && rapid.IntRange(0, 3).Draw(t, "alias?") == 3 {
					num = c.Enum[rapid.IntRange(0, i-1).Draw(t, "aliasof")].Num
				} else {
					num = gen.Int32().Draw(t, "num")
				}
				c.Enum = append(c.Enum, enumValue{Name: names[i], Num: num})
			}
			n := rapid.IntRange(1, 8).Draw(t, "nfields")
			for i := 0; i < n; i++ {
				k := rapid.SampledFrom(e2eKinds).Draw(t, "kind")
				fs := fieldSpec{Kind: int(k), Ext: rapid.IntRange(0, 3).Draw(t, "ext") == 3}
				if k == protoreflect.EnumKind {
					fs.Bits = uint64(rapid.IntRange(0, ne-1).Draw(t, "enumpick"))
				} else {
					t2 := drawScalarOfKind(t, k)
					fs.Bits, fs.Str = t2.Bits, t2.Str
					if k == protoreflect.StringKind && !utf8.Valid(fs.Str) {
						fs.Str = []byte(gen.ValidString(100).Draw(t, "validstr")) // default_value is a proto string
					}
					if k == protoreflect.FloatKind || k == protoreflect.DoubleKind {
						fs.Style = rapid.SampledFrom([]int{0, 0, 0, 1, 2}).Draw(t, "style")
					}
				}
				c.Fields = append(c.Fields, fs)
			}
			return c
		},
		Check: checkDesc,
		NonTrivial: func(c descCase) bool {
			for _, fs := range c.Fields {
				k := protoreflect.Kind(fs.Kind)
				if k == protoreflect.EnumKind {
					w := c.Enum[int(fs.Bits%uint64(len(c.Enum)))]
					if w.Num < 0 {
						return true
					}
					for j, v := range c.Enum {
						if v.Num == w.Num && j != int(fs.Bits%uint64(len(c.Enum))) {
							return true
						}
					}
					continue
				}
				if scalarNonTrivial(scalarCase{Kind: fs.Kind, Format: 1, Bits: fs.Bits, Str: fs.Str}) {
					return true
				}
			}
			return false
		},
		Classes: func(c descCase) []string {
			seen := map[string]bool{}
			var cls []string
			for _, fs := range c.Fields {
				k := protoreflect.Kind(fs.Kind).String()
				if fs.Ext {
					k = "extension"
				}
				if !seen[k] {
					seen[k] = true
					cls = append(cls, k)
				}
				if fs.Style != 0 && !seen["float-alt-spelling"] {
					seen["float-alt-spelling"] = true
					cls = append(cls, "float-alt-spelling")
				}
			}
			return cls
		},
		Quick: 25000, Thorough: 150000,
	})
}

func drawScalarOfKind(t *rapid.T, k protoreflect.Kind) scalarCase {
	c := scalarCase{Kind: int(k), Format: 1}
	switch k {
	case protoreflect.BoolKind:
		c.Bits = uint64(rapid.IntRange(0, 1).Draw(t, "bool"))
	case protoreflect.Int32Kind, protoreflect.Sint32Kind, protoreflect.Sfixed32Kind:
		c.Bits = uint64(uint32(gen.Int32().Draw(t, "i32")))
	case protoreflect.Uint32Kind, protoreflect.Fixed32Kind:
		c.Bits = uint64(gen.Uint32().Draw(t, "u32"))
	case protoreflect.Int64Kind, protoreflect.Sint64Kind, protoreflect.Sfixed64Kind:
		c.Bits = uint64(gen.Int64().Draw(t, "i64"))
	case protoreflect.Uint64Kind, protoreflect.Fixed64Kind:
		c.Bits = gen.Uint64().Draw(t, "u64")
	case protoreflect.FloatKind:
		c.Bits = uint64(gen.Float32Bits().Draw(t, "f32"))
	case protoreflect.DoubleKind:
		c.Bits = gen.Float64Bits().Draw(t, "f64")
	case protoreflect.StringKind:
		c.Str = []byte(gen.ValidString(100).Draw(t, "str"))
	case protoreflect.BytesKind:
		c.Str = gen.Bytes(100).Draw(t, "bytes")
	}
	return c
}
