// Package c31 checks property C31: read-only operations on a typed nil pointer of every generated
// message type linked into the binary neither panic nor differ from the same operation on a fresh
// empty message of that type, except for the documented differences.
//
// The grid (type x entry point) is finite and enumerated completely. Two oracles are used for
// every entry point: (1) differential: the observation on the typed nil pointer must equal the
// observation on mt.New().Interface() (nil pointers take the p.IsNil()/x != nil early returns,
// empty messages take the regular table-driven path: two separate code paths in /repo), and
// (2) the fixed expectations that follow from "empty message" in the documentation (size 0, no
// bytes, Has false, Get = descriptor default, Range visits nothing, no oneof member, no unknown).
//
// Documented differences that are asserted instead of "same as empty":
//   - IsValid() is false (protoreflect.Message.IsValid doc);
//   - proto.Equal(typed nil, valid empty) is false, typed nil equals only an invalid message of the
//     same type (proto.Equal doc);
//   - proto.Marshal / MarshalOptions.Marshal return a nil slice (emptyBytesForMessage doc), a
//     non-nil empty slice for the valid empty message;
//   - proto.Clone returns an invalid message of the same Go type (proto.Clone doc);
//   - protojson/prototext Format print "<nil>" (stated in the source of both Format methods, whose
//     doc says the output is for human consumption only and must not be depended on).
package c31

import (
	"bytes"
	"fmt"
	"math"
	"reflect"
	"sort"
	"strings"
	"sync"
	"testing"

	"google.golang.org/protobuf/encoding/protojson"
	"google.golang.org/protobuf/encoding/prototext"
	"google.golang.org/protobuf/proto"
	"google.golang.org/protobuf/reflect/protopath"
	"google.golang.org/protobuf/reflect/protorange"
	"google.golang.org/protobuf/reflect/protoreflect"
	"google.golang.org/protobuf/reflect/protoregistry"
	"google.golang.org/protobuf/zverif/corpus"
	"google.golang.org/protobuf/zverif/gen"
	"google.golang.org/protobuf/zverif/model"
	"google.golang.org/protobuf/zverif/pbt"
	"pgregory.net/rapid"
)

// ---- the type universe ---------------------------------------------------------------------------

type typeInfo struct {
	mt      protoreflect.MessageType
	goType  reflect.Type // pointer to generated struct
	skipped string       // reason when the type is outside the property's domain
}

var (
	universeOnce sync.Once
	universe     map[string]*typeInfo
	genNames     []string // generated pointer-to-struct types, sorted
	skippedNames map[string][]string
)

func loadUniverse() {
	universeOnce.Do(func() {
		universe = map[string]*typeInfo{}
		skippedNames = map[string][]string{}
		for _, mt := range corpus.Messages() {
			name := string(mt.Descriptor().FullName())
			ti := &typeInfo{mt: mt}
			m := mt.New()
			gt := reflect.TypeOf(m.Interface())
			switch impl := fmt.Sprintf("%T", m); {
			case strings.HasPrefix(name, "goproto.proto.irregular."):
				// generated wrapper around the hand-written aberrant IrregularMessage (whose own methods
				// dereference a nil receiver): outside the generated/dynamic contract, covered by C46
				ti.skipped = "irregular: " + name + " embeds the hand-written IrregularMessage implementation"
			case impl != "*impl.messageState":
				// legacy (pre-APIv2) structs reached through impl.messageReflectWrapper /
				// messageIfaceWrapper, dynamicpb, hand-written irregular implementations
				ti.skipped = "implementation " + impl + " (Go type " + gt.String() + ") is not a generated message struct"
			case gt.Kind() != reflect.Ptr || gt.Elem().Kind() != reflect.Struct:
				ti.skipped = "Go type " + gt.String() + " is not a pointer to struct"
			default:
				ti.goType = gt
			}
			universe[name] = ti
			if ti.skipped != "" {
				key := fmt.Sprintf("%T", m)
				if strings.HasPrefix(ti.skipped, "irregular") {
					key = "irregular"
				}
				skippedNames[key] = append(skippedNames[key], name)
				continue
			}
			genNames = append(genNames, name)
		}
		sort.Strings(genNames)
	})
}

// typedNil returns (*T)(nil) as a proto.Message, obtained through Go reflection from the Go type
// of a fresh message (not through mt.Zero(), which is itself under test).
func typedNil(ti *typeInfo) proto.Message {
	return reflect.Zero(ti.goType).Interface().(proto.Message)
}

// ---- observation helpers ---------------------------------------------------------------------------

// observe runs f and renders either its result or the recovered panic.
func observe(f func() string) (out string, panicked bool) {
	defer func() {
		if r := recover(); r != nil {
			out, panicked = fmt.Sprintf("PANIC: %v", r), true
		}
	}()
	return f(), false
}

type ctx struct {
	ti    *typeInfo
	mt    protoreflect.MessageType
	md    protoreflect.MessageDescriptor
	nilM  proto.Message
	empty proto.Message
}

// same: the observation on the typed nil pointer must not panic and must equal the observation
// on the empty message; want, when non-nil, is the fixed expectation for an empty message.
func (c *ctx) same(what string, f func(m proto.Message) string, want *string) error {
	gn, pn := observe(func() string { return f(c.nilM) })
	if pn {
		return fmt.Errorf("%s on typed nil *%s: %s", what, c.md.FullName(), gn)
	}
	ge, pe := observe(func() string { return f(c.empty) })
	if pe {
		return fmt.Errorf("%s on the EMPTY message %s panics: %s (typed nil gave %q)", what, c.md.FullName(), ge, gn)
	}
	if gn != ge {
		return fmt.Errorf("%s: typed nil gives %q, empty message gives %q", what, gn, ge)
	}
	if want != nil && gn != *want {
		return fmt.Errorf("%s: typed nil and empty message both give %q, an empty message must give %q", what, gn, *want)
	}
	return nil
}

func str(s string) *string { return &s }

func errStr(err error) string {
	if err == nil {
		return "<ok>"
	}
	return "error: " + err.Error()
}

// hasRequired: the type itself declares a required field (an empty message is then uninitialised).
func hasRequired(md protoreflect.MessageDescriptor) bool { return md.RequiredNumbers().Len() > 0 }

func extensionsOf(md protoreflect.MessageDescriptor) []protoreflect.ExtensionType {
	var out []protoreflect.ExtensionType
	protoregistry.GlobalTypes.RangeExtensionsByMessage(md.FullName(), func(xt protoreflect.ExtensionType) bool {
		out = append(out, xt)
		return true
	})
	sort.Slice(out, func(i, j int) bool { return out[i].TypeDescriptor().Number() < out[j].TypeDescriptor().Number() })
	return out
}

// renderValue renders the value Get returns for an unpopulated field, and checks it against the
// descriptor's default on the way (independent expectation).
func renderValue(fd protoreflect.FieldDescriptor, v protoreflect.Value) string {
	switch {
	case fd.IsMap():
		mp := v.Map()
		n := 0
		mp.Range(func(protoreflect.MapKey, protoreflect.Value) bool { n++; return true })
		return fmt.Sprintf("map(len=%d,ranged=%d,valid=%v)", mp.Len(), n, mp.IsValid())
	case fd.IsList():
		l := v.List()
		return fmt.Sprintf("list(len=%d,valid=%v)", l.Len(), l.IsValid())
	case fd.Message() != nil:
		sm := v.Message()
		n := 0
		sm.Range(func(protoreflect.FieldDescriptor, protoreflect.Value) bool { n++; return true })
		return fmt.Sprintf("message(%s,valid=%v,ranged=%d,unknown=%d)", sm.Descriptor().FullName(), sm.IsValid(), n, len(sm.GetUnknown()))
	}
	return renderScalar(fd.Kind(), v)
}

func renderScalar(k protoreflect.Kind, v protoreflect.Value) string {
	switch k {
	case protoreflect.FloatKind:
		return fmt.Sprintf("float32(%#08x)", math.Float32bits(float32(v.Float())))
	case protoreflect.DoubleKind:
		return fmt.Sprintf("float64(%#016x)", math.Float64bits(v.Float()))
	case protoreflect.BytesKind:
		return fmt.Sprintf("bytes(%x)", v.Bytes())
	case protoreflect.StringKind:
		return fmt.Sprintf("string(%q)", v.String())
	case protoreflect.EnumKind:
		return fmt.Sprintf("enum(%d)", v.Enum())
	case protoreflect.BoolKind:
		return fmt.Sprintf("bool(%v)", v.Bool())
	case protoreflect.Int32Kind, protoreflect.Sint32Kind, protoreflect.Sfixed32Kind, protoreflect.Int64Kind, protoreflect.Sint64Kind, protoreflect.Sfixed64Kind:
		return fmt.Sprintf("int(%d)", v.Int())
	default:
		return fmt.Sprintf("uint(%d)", v.Uint())
	}
}

// wantUnpopulated is the documented result of Get on an unpopulated field: the default value for
// scalars, an empty read-only (invalid) list / map / message for composites.
func wantUnpopulated(fd protoreflect.FieldDescriptor) string {
	switch {
	case fd.IsMap():
		return "map(len=0,ranged=0,valid=false)"
	case fd.IsList():
		return "list(len=0,valid=false)"
	case fd.Message() != nil:
		return fmt.Sprintf("message(%s,valid=false,ranged=0,unknown=0)", fd.Message().FullName())
	}
	return renderScalar(fd.Kind(), fd.Default())
}

// renderGo renders the result of a generated accessor called through Go reflection.
func renderGo(v reflect.Value) string {
	switch v.Kind() {
	case reflect.Float32:
		return fmt.Sprintf("float32(%#08x)", math.Float32bits(float32(v.Float())))
	case reflect.Float64:
		return fmt.Sprintf("float64(%#016x)", math.Float64bits(v.Float()))
	case reflect.Ptr, reflect.Interface:
		if v.IsNil() {
			return "nil " + v.Type().String()
		}
		if m, ok := v.Interface().(proto.Message); ok {
			b, err := proto.MarshalOptions{AllowPartial: true, Deterministic: true}.Marshal(m)
			return fmt.Sprintf("non-nil %s valid=%v wire=%x err=%v", v.Type(), m.ProtoReflect().IsValid(), b, err)
		}
		return "non-nil " + v.Type().String() + " -> " + renderGo(v.Elem())
	case reflect.Slice:
		if v.Len() == 0 {
			return "empty " + v.Type().String() // nil-ness of an empty slice is not specified
		}
		return fmt.Sprintf("%s %v", v.Type(), v.Interface())
	case reflect.Map:
		if v.Len() == 0 {
			return "empty " + v.Type().String()
		}
		return fmt.Sprintf("%s len=%d", v.Type(), v.Len())
	}
	return fmt.Sprintf("%s(%v)", v.Type(), v.Interface())
}

// ---- the entry points -------------------------------------------------------------------------------

type entry struct {
	name string
	run  func(c *ctx) error
}

func binOpts(i int) proto.MarshalOptions {
	return proto.MarshalOptions{Deterministic: i&1 != 0, AllowPartial: i&2 != 0, UseCachedSize: i&4 != 0}
}

func jsonOpts(i int) protojson.MarshalOptions {
	o := protojson.MarshalOptions{Multiline: i&1 != 0, AllowPartial: i&2 != 0, UseProtoNames: i&4 != 0, UseEnumNumbers: i&8 != 0, EmitUnpopulated: i&16 != 0, EmitDefaultValues: i&32 != 0}
	if i&1 != 0 && i&4 != 0 {
		o.Indent = "\t"
	}
	return o
}

func textOpts(i int) prototext.MarshalOptions {
	o := prototext.MarshalOptions{Multiline: i&1 != 0, AllowPartial: i&2 != 0, EmitASCII: i&4 != 0, EmitUnknown: i&8 != 0}
	if i&1 != 0 && i&4 != 0 {
		o.Indent = "   "
	}
	return o
}

// marshalEntry: Marshal with documented nil-slice difference.
func marshalEntry(what string, f func(m proto.Message) ([]byte, error), wantNilSlice bool) func(c *ctx) error {
	return func(c *ctx) error {
		type res struct {
			b   []byte
			err error
		}
		var rn, re res
		if s, p := observe(func() string { rn.b, rn.err = f(c.nilM); return "" }); p {
			return fmt.Errorf("%s on typed nil *%s: %s", what, c.md.FullName(), s)
		}
		if s, p := observe(func() string { re.b, re.err = f(c.empty); return "" }); p {
			return fmt.Errorf("%s on the EMPTY message panics: %s", what, s)
		}
		if errStr(rn.err) != errStr(re.err) {
			return fmt.Errorf("%s: typed nil -> %s, empty message -> %s", what, errStr(rn.err), errStr(re.err))
		}
		if !bytes.Equal(rn.b, re.b) {
			return fmt.Errorf("%s: typed nil -> %q, empty message -> %q", what, rn.b, re.b)
		}
		if wantNilSlice && rn.err == nil {
			if len(rn.b) != 0 {
				return fmt.Errorf("%s: an empty message encodes to %x", what, rn.b)
			}
			if rn.b != nil {
				return fmt.Errorf("%s: typed nil must give a nil slice (emptyBytesForMessage), got non-nil empty", what)
			}
			if re.b == nil {
				return fmt.Errorf("%s: a valid empty message must give a non-nil empty slice, got nil", what)
			}
		}
		return nil
	}
}

func buildEntries() []entry {
	var es []entry
	add := func(name string, run func(c *ctx) error) { es = append(es, entry{name, run}) }

	// --- binary ---
	add("proto.Marshal", marshalEntry("proto.Marshal", func(m proto.Message) ([]byte, error) { return proto.Marshal(m) }, true))
	for i := 0; i < 8; i++ {
		o := binOpts(i)
		tag := fmt.Sprintf("{Det:%v,Partial:%v,Cached:%v}", o.Deterministic, o.AllowPartial, o.UseCachedSize)
		add(fmt.Sprintf("MarshalOptions.Marshal#%d", i), marshalEntry("MarshalOptions"+tag+".Marshal", func(m proto.Message) ([]byte, error) { return o.Marshal(m) }, true))
		add(fmt.Sprintf("MarshalOptions.MarshalAppend#%d", i), func(c *ctx) error {
			prefix := []byte("prefix")
			if err := marshalEntry("MarshalOptions"+tag+".MarshalAppend", func(m proto.Message) ([]byte, error) {
				return o.MarshalAppend(append([]byte(nil), prefix...), m)
			}, false)(c); err != nil {
				return err
			}
			b, err := o.MarshalAppend(append([]byte(nil), prefix...), c.nilM)
			if err == nil && !bytes.Equal(b, prefix) {
				return fmt.Errorf("MarshalAppend%s(prefix, typed nil) = %q, want the prefix unchanged", tag, b)
			}
			wantErr := !o.AllowPartial && hasRequired(c.md)
			if (err != nil) != wantErr && !corpus.UsesMessageSet(c.md) {
				return fmt.Errorf("MarshalAppend%s(typed nil): err=%v, want error=%v (type has required fields: %v)", tag, err, wantErr, hasRequired(c.md))
			}
			return nil
		})
		add(fmt.Sprintf("MarshalOptions.Size#%d", i), func(c *ctx) error {
			return c.same("MarshalOptions"+tag+".Size", func(m proto.Message) string { return fmt.Sprint(o.Size(m)) }, str("0"))
		})
	}
	add("proto.Size", func(c *ctx) error {
		return c.same("proto.Size", func(m proto.Message) string { return fmt.Sprint(proto.Size(m)) }, str("0"))
	})
	add("proto.CheckInitialized", func(c *ctx) error {
		if err := c.same("proto.CheckInitialized", func(m proto.Message) string { return errStr(proto.CheckInitialized(m)) }, nil); err != nil {
			return err
		}
		// independent expectation: an empty message is initialised iff the type declares no required field
		err := proto.CheckInitialized(c.nilM)
		if (err != nil) != hasRequired(c.md) {
			return fmt.Errorf("proto.CheckInitialized(typed nil) = %v, but type declares required fields: %v", err, hasRequired(c.md))
		}
		return nil
	})
	add("proto.MessageName", func(c *ctx) error {
		return c.same("proto.MessageName", func(m proto.Message) string { return string(proto.MessageName(m)) }, str(string(c.md.FullName())))
	})
	add("proto.Clone", func(c *ctx) error {
		var cl proto.Message
		if s, p := observe(func() string { cl = proto.Clone(c.nilM); return "" }); p {
			return fmt.Errorf("proto.Clone on typed nil: %s", s)
		}
		if cl == nil {
			return fmt.Errorf("proto.Clone(typed nil) returned an untyped nil interface")
		}
		if reflect.TypeOf(cl) != c.ti.goType {
			return fmt.Errorf("proto.Clone(typed nil) has Go type %T, want %v", cl, c.ti.goType)
		}
		if cl.ProtoReflect().IsValid() || !reflect.ValueOf(cl).IsNil() {
			return fmt.Errorf("proto.Clone(typed nil) must be an invalid message (doc of Clone), got a valid one")
		}
		if !proto.Equal(cl, c.nilM) {
			return fmt.Errorf("proto.Equal(Clone(typed nil), typed nil) = false")
		}
		// the clone of the empty message is a valid empty message
		ce := proto.Clone(c.empty)
		if !ce.ProtoReflect().IsValid() || !proto.Equal(ce, c.empty) || proto.Equal(ce, c.nilM) {
			return fmt.Errorf("proto.Clone(empty) is not a valid empty message distinct from the typed nil")
		}
		return nil
	})
	add("proto.Equal", func(c *ctx) error {
		loadUniverse()
		var other proto.Message // typed nil of another generated type
		for i, n := range genNames {
			if n == string(c.md.FullName()) {
				other = typedNil(universe[genNames[(i+1)%len(genNames)]])
			}
		}
		nil2 := reflect.Zero(c.ti.goType).Interface().(proto.Message)
		zero := c.mt.Zero().Interface()
		pairs := []struct {
			what string
			x, y proto.Message
			want bool
		}{
			{"Equal(nil, nil)", c.nilM, c.nilM, true},
			{"Equal(nil, second typed nil of the same type)", c.nilM, nil2, true},
			{"Equal(nil, mt.Zero())", c.nilM, zero, true},
			{"Equal(mt.Zero(), nil)", zero, c.nilM, true},
			{"Equal(nil, empty)", c.nilM, c.empty, false},
			{"Equal(empty, nil)", c.empty, c.nilM, false},
			{"Equal(empty, empty')", c.empty, c.mt.New().Interface(), true},
			{"Equal(nil, typed nil of another type)", c.nilM, other, false},
			{"Equal(typed nil of another type, nil)", other, c.nilM, false},
		}
		for _, p := range pairs {
			var got bool
			if s, pn := observe(func() string { got = proto.Equal(p.x, p.y); return "" }); pn {
				return fmt.Errorf("proto.%s: %s", p.what, s)
			}
			if got != p.want {
				return fmt.Errorf("proto.%s = %v, want %v (an invalid message equals only an invalid message of the same type)", p.what, got, p.want)
			}
		}
		return nil
	})
	add("proto.Extensions", func(c *ctx) error {
		for _, xt := range extensionsOf(c.md) {
			xd := xt.TypeDescriptor()
			if err := c.same("proto.HasExtension("+string(xd.FullName())+")", func(m proto.Message) string { return fmt.Sprint(proto.HasExtension(m, xt)) }, str("false")); err != nil {
				return err
			}
			if err := c.same("proto.GetExtension("+string(xd.FullName())+")", func(m proto.Message) string {
				return renderGo(reflect.ValueOf(proto.GetExtension(m, xt)))
			}, nil); err != nil {
				return err
			}
		}
		return c.same("proto.RangeExtensions", func(m proto.Message) string {
			n := 0
			proto.RangeExtensions(m, func(protoreflect.ExtensionType, any) bool { n++; return true })
			return fmt.Sprint(n)
		}, str("0"))
	})

	// --- protojson / prototext ---
	for i := 0; i < 64; i++ {
		o := jsonOpts(i)
		tag := fmt.Sprintf("%+v", o)
		add(fmt.Sprintf("protojson.Marshal#%d", i), marshalEntry("protojson"+tag+".Marshal", func(m proto.Message) ([]byte, error) { return o.Marshal(m) }, false))
	}
	add("protojson.Marshal", marshalEntry("protojson.Marshal", func(m proto.Message) ([]byte, error) { return protojson.Marshal(m) }, false))
	add("protojson.MarshalAppend", marshalEntry("protojson.MarshalAppend", func(m proto.Message) ([]byte, error) {
		return protojson.MarshalOptions{}.MarshalAppend([]byte("prefix"), m)
	}, false))
	for i := 0; i < 16; i++ {
		o := textOpts(i)
		tag := fmt.Sprintf("%+v", o)
		add(fmt.Sprintf("prototext.Marshal#%d", i), marshalEntry("prototext"+tag+".Marshal", func(m proto.Message) ([]byte, error) { return o.Marshal(m) }, false))
	}
	add("prototext.Marshal", marshalEntry("prototext.Marshal", func(m proto.Message) ([]byte, error) { return prototext.Marshal(m) }, false))
	add("prototext.MarshalAppend", marshalEntry("prototext.MarshalAppend", func(m proto.Message) ([]byte, error) {
		return prototext.MarshalOptions{}.MarshalAppend([]byte("prefix"), m)
	}, false))
	// Format: never panics; prints "<nil>" for an invalid message (source comment of both Format
	// methods; their doc says the output is for humans and unstable), otherwise as for empty.
	format := func(what string, f func(m proto.Message) string) func(c *ctx) error {
		return func(c *ctx) error {
			gn, pn := observe(func() string { return f(c.nilM) })
			if pn {
				return fmt.Errorf("%s on typed nil: %s", what, gn)
			}
			ge, pe := observe(func() string { return f(c.empty) })
			if pe {
				return fmt.Errorf("%s on the EMPTY message panics: %s", what, ge)
			}
			if gn != "<nil>" && gn != ge {
				return fmt.Errorf("%s: typed nil gives %q, want \"<nil>\" or the empty message's %q", what, gn, ge)
			}
			return nil
		}
	}
	add("protojson.Format", format("protojson.Format", func(m proto.Message) string { return protojson.Format(m) }))
	add("protojson.MarshalOptions.Format", format("protojson.MarshalOptions{Multiline,EmitUnpopulated}.Format", func(m proto.Message) string {
		return protojson.MarshalOptions{Multiline: true, EmitUnpopulated: true}.Format(m)
	}))
	add("prototext.Format", format("prototext.Format", func(m proto.Message) string { return prototext.Format(m) }))
	add("prototext.MarshalOptions.Format", format("prototext.MarshalOptions{Multiline:false}.Format", func(m proto.Message) string {
		return prototext.MarshalOptions{EmitASCII: true}.Format(m)
	}))

	// --- reflection ---
	add("reflect.IsValid", func(c *ctx) error {
		var vn, ve bool
		if s, p := observe(func() string { vn, ve = c.nilM.ProtoReflect().IsValid(), c.empty.ProtoReflect().IsValid(); return "" }); p {
			return fmt.Errorf("ProtoReflect().IsValid(): %s", s)
		}
		if vn || !ve {
			return fmt.Errorf("IsValid: typed nil %v (want false), empty %v (want true)", vn, ve)
		}
		return nil
	})
	add("reflect.Descriptor+Type", func(c *ctx) error {
		if s, p := observe(func() string {
			m := c.nilM.ProtoReflect()
			if m.Descriptor() != c.md {
				return "Descriptor() of typed nil is not the type's descriptor"
			}
			if m.Type() != c.mt {
				return "Type() of typed nil is not the registered message type"
			}
			if m.Type().Descriptor() != c.md {
				return "Type().Descriptor() differs"
			}
			return ""
		}); p || s != "" {
			return fmt.Errorf("reflection identity: %s", s)
		}
		return nil
	})
	add("reflect.Interface", func(c *ctx) error {
		if s, p := observe(func() string {
			back := c.nilM.ProtoReflect().Interface()
			if reflect.TypeOf(back) != c.ti.goType || !reflect.ValueOf(back).IsNil() {
				return fmt.Sprintf("ProtoReflect().Interface() of typed nil is %T (nil=%v)", back, reflect.TypeOf(back) == c.ti.goType && reflect.ValueOf(back).IsNil())
			}
			z := c.mt.Zero()
			if z.IsValid() || reflect.TypeOf(z.Interface()) != c.ti.goType || !reflect.ValueOf(z.Interface()).IsNil() {
				return fmt.Sprintf("mt.Zero() is not the typed nil pointer: %T valid=%v", z.Interface(), z.IsValid())
			}
			if nm := c.nilM.ProtoReflect().New(); !nm.IsValid() || reflect.TypeOf(nm.Interface()) != c.ti.goType {
				return "ProtoReflect().New() on typed nil does not give a valid message of the type"
			}
			return ""
		}); p || s != "" {
			return fmt.Errorf("reflection round trip: %s", s)
		}
		return nil
	})
	add("reflect.Has", func(c *ctx) error {
		fs := c.md.Fields()
		for i := 0; i < fs.Len(); i++ {
			fd := fs.Get(i)
			if err := c.same("Has("+string(fd.Name())+")", func(m proto.Message) string { return fmt.Sprint(m.ProtoReflect().Has(fd)) }, str("false")); err != nil {
				return err
			}
		}
		return nil
	})
	add("reflect.Get", func(c *ctx) error {
		fs := c.md.Fields()
		for i := 0; i < fs.Len(); i++ {
			fd := fs.Get(i)
			if err := c.same("Get("+string(fd.Name())+")", func(m proto.Message) string { return renderValue(fd, m.ProtoReflect().Get(fd)) }, str(wantUnpopulated(fd))); err != nil {
				return err
			}
		}
		return nil
	})
	add("reflect.Extensions", func(c *ctx) error {
		for _, xt := range extensionsOf(c.md) {
			fd := xt.TypeDescriptor()
			if err := c.same("Has(["+string(fd.FullName())+"])", func(m proto.Message) string { return fmt.Sprint(m.ProtoReflect().Has(fd)) }, str("false")); err != nil {
				return err
			}
			if err := c.same("Get(["+string(fd.FullName())+"])", func(m proto.Message) string { return renderValue(fd, m.ProtoReflect().Get(fd)) }, str(wantUnpopulated(fd))); err != nil {
				return err
			}
		}
		return nil
	})
	add("reflect.Range", func(c *ctx) error {
		return c.same("Range", func(m proto.Message) string {
			var seen []string
			m.ProtoReflect().Range(func(fd protoreflect.FieldDescriptor, _ protoreflect.Value) bool {
				seen = append(seen, string(fd.FullName()))
				return true
			})
			return fmt.Sprint(seen)
		}, str("[]"))
	})
	add("reflect.WhichOneof", func(c *ctx) error {
		os := c.md.Oneofs()
		for i := 0; i < os.Len(); i++ {
			od := os.Get(i)
			if err := c.same("WhichOneof("+string(od.Name())+")", func(m proto.Message) string {
				if fd := m.ProtoReflect().WhichOneof(od); fd != nil {
					return string(fd.Name())
				}
				return "<none>"
			}, str("<none>")); err != nil {
				return err
			}
		}
		return nil
	})
	add("reflect.GetUnknown", func(c *ctx) error {
		return c.same("GetUnknown", func(m proto.Message) string { return fmt.Sprintf("%x", []byte(m.ProtoReflect().GetUnknown())) }, str(""))
	})
	add("protorange.Range", func(c *ctx) error {
		return c.same("protorange.Options{Stable}.Range", func(m proto.Message) string {
			var log []string
			err := protorange.Options{Stable: true}.Range(m.ProtoReflect(),
				func(p protopath.Values) error {
					log = append(log, fmt.Sprintf("push %d %v", p.Len(), p.Path))
					return nil
				},
				func(p protopath.Values) error {
					log = append(log, fmt.Sprintf("pop %d", p.Len()))
					return nil
				})
			return fmt.Sprintf("%v err=%v", log, err)
		}, str(fmt.Sprintf("[push 1 (%s) pop 1] err=<nil>", c.md.FullName())))
	})
	add("protorange.Range/simple", func(c *ctx) error {
		return c.same("protorange.Range", func(m proto.Message) string {
			n := 0
			err := protorange.Range(m.ProtoReflect(), func(p protopath.Values) error { n++; return nil })
			return fmt.Sprintf("%d err=%v", n, err)
		}, str("1 err=<nil>"))
	})

	// --- generated accessors found by Go reflection ---
	add("generated.getters", func(c *ctx) error {
		t := c.ti.goType
		nilV, emptyV := reflect.ValueOf(c.nilM), reflect.ValueOf(c.empty)
		for i := 0; i < t.NumMethod(); i++ {
			mth := t.Method(i)
			if !(strings.HasPrefix(mth.Name, "Get") || strings.HasPrefix(mth.Name, "Has") || strings.HasPrefix(mth.Name, "Which")) || mth.Type.NumIn() != 1 || mth.Type.NumOut() != 1 {
				continue
			}
			call := func(recv reflect.Value) (string, bool) {
				return observe(func() string { return renderGo(recv.Method(i).Call(nil)[0]) })
			}
			gn, pn := call(nilV)
			if pn {
				return fmt.Errorf("(*%s)(nil).%s(): %s", t.Elem(), mth.Name, gn)
			}
			ge, pe := call(emptyV)
			if pe {
				return fmt.Errorf("(&%s{}).%s() panics: %s", t.Elem(), mth.Name, ge)
			}
			if gn != ge {
				return fmt.Errorf("%s(): typed nil gives %s, empty message gives %s", mth.Name, gn, ge)
			}
			if strings.HasPrefix(mth.Name, "Has") && mth.Type.Out(0).Kind() == reflect.Bool && gn != "bool(false)" {
				return fmt.Errorf("%s() = %s on an empty message", mth.Name, gn)
			}
		}
		return nil
	})
	return es
}

var (
	entriesOnce sync.Once
	entries     []entry
	entryByName map[string]*entry
)

func loadEntries() {
	entriesOnce.Do(func() {
		entries = buildEntries()
		entryByName = map[string]*entry{}
		for i := range entries {
			entryByName[entries[i].name] = &entries[i]
		}
	})
}

// ---- the grid ------------------------------------------------------------------------------------------

type nilCase struct {
	Type  string
	Entry string
}

func checkNil(c nilCase) error {
	loadUniverse()
	loadEntries()
	ti := universe[c.Type]
	if ti == nil {
		return fmt.Errorf("harness: unknown type %q", c.Type)
	}
	if ti.skipped != "" {
		return nil
	}
	e := entryByName[c.Entry]
	if e == nil {
		return fmt.Errorf("harness: unknown entry point %q", c.Entry)
	}
	x := &ctx{ti: ti, mt: ti.mt, md: ti.mt.Descriptor(), nilM: typedNil(ti), empty: ti.mt.New().Interface()}
	if !reflect.ValueOf(x.nilM).IsNil() || reflect.TypeOf(x.nilM) != reflect.TypeOf(x.empty) {
		return fmt.Errorf("harness: typed nil construction failed for %s", c.Type)
	}
	return e.run(x)
}

var wktJSON = map[string]bool{
	"google.protobuf.Any": true, "google.protobuf.Timestamp": true, "google.protobuf.Duration": true, "google.protobuf.FieldMask": true,
	"google.protobuf.Struct": true, "google.protobuf.Value": true, "google.protobuf.ListValue": true, "google.protobuf.Empty": true,
	"google.protobuf.BoolValue": true, "google.protobuf.Int32Value": true, "google.protobuf.Int64Value": true, "google.protobuf.UInt32Value": true,
	"google.protobuf.UInt64Value": true, "google.protobuf.FloatValue": true, "google.protobuf.DoubleValue": true, "google.protobuf.StringValue": true,
	"google.protobuf.BytesValue": true,
}

func nonTrivialType(md protoreflect.MessageDescriptor) bool {
	return md.RequiredNumbers().Len() > 0 || md.Oneofs().Len() > 0 || md.ExtensionRanges().Len() > 0 || wktJSON[string(md.FullName())]
}

func TestNilGrid(t *testing.T) {
	loadUniverse()
	loadEntries()
	nTypes, nNT := 0, 0
	pbt.Enumerate(t, "nil-grid",
		fmt.Sprintf("every generated message type registered in protoregistry.GlobalTypes of this binary (%d types; %d legacy-wrapper types skipped) x every read-only entry point (%d: binary Marshal/MarshalAppend/Size under all 8 option sets, Clone, Equal, CheckInitialized, MessageName, extension readers, protojson Marshal under all 64 option sets, prototext Marshal under all 16, Format, reflection Has/Get/Range/WhichOneof/GetUnknown/IsValid/Descriptor/Type/Interface/Zero, every generated Get*/Has*/Which* method found by Go reflect, protorange.Range) on reflect.Zero(pointer type) vs mt.New(); thorough tier splits the types over the shards; non-trivial = type has a required field, a oneof, an extension range or a well-known JSON form", len(genNames), len(universe)-len(genNames), len(entries)),
		true,
		func(yield func(nilCase, bool) bool) {
			for i, name := range genNames {
				if pbt.NShards > 1 && int64(i)%pbt.NShards != pbt.Shard {
					continue
				}
				nTypes++
				nt := nonTrivialType(universe[name].mt.Descriptor())
				if nt {
					nNT++
				}
				for _, e := range entries {
					if !yield(nilCase{Type: name, Entry: e.name}, nt) {
						return
					}
				}
			}
		}, checkNil)
	pbt.S.SetExtra("types_checked", nTypes)
	pbt.S.SetExtra("types_nontrivial", nNT)
	pbt.S.SetExtra("entry_points", len(entries))
	var reasons []string
	for r := range skippedNames {
		reasons = append(reasons, r)
	}
	sort.Strings(reasons)
	for _, r := range reasons {
		names := skippedNames[r]
		show := names
		if len(show) > 6 {
			show = show[:6]
		}
		pbt.S.Note("skipped %d types (%s): not a generated pointer-to-struct implementation, e.g. %v", len(names), r, show)
	}
}

// ---- comparison partners: populated messages against the typed nil ----------------------------------

type partnerCase struct {
	Type string
	M    *model.Msg
}

func checkPartner(c partnerCase) error {
	loadUniverse()
	ti := universe[c.Type]
	if ti == nil || ti.skipped != "" {
		return fmt.Errorf("harness: type %q not in the generated universe", c.Type)
	}
	nilM := typedNil(ti)
	pop := ti.mt.New()
	if err := model.Apply(pop, c.M, nil); err != nil {
		return fmt.Errorf("harness: %v", err)
	}
	p := pop.Interface()
	for _, o := range []struct {
		what string
		x, y proto.Message
	}{{"Equal(typed nil, populated)", nilM, p}, {"Equal(populated, typed nil)", p, nilM}} {
		var got bool
		if s, pn := observe(func() string { got = proto.Equal(o.x, o.y); return "" }); pn {
			return fmt.Errorf("proto.%s: %s", o.what, s)
		}
		if got {
			return fmt.Errorf("proto.%s = true: an invalid message is not equal to a valid message", o.what)
		}
	}
	// reflection-level comparison treats the invalid message as empty: equal iff the partner is empty
	var got bool
	if s, pn := observe(func() string {
		got = protoreflect.ValueOfMessage(nilM.ProtoReflect()).Equal(protoreflect.ValueOfMessage(pop))
		return ""
	}); pn {
		return fmt.Errorf("Value.Equal(typed nil, populated): %s", s)
	}
	empty := len(model.Snapshot(pop).Fields) == 0 && len(pop.GetUnknown()) == 0
	if got != empty {
		return fmt.Errorf("protoreflect.Value.Equal(typed nil, partner) = %v, partner is empty: %v (an invalid message reads as an empty message)", got, empty)
	}
	return nil
}

func TestNilPartners(t *testing.T) {
	loadUniverse()
	std := map[string]bool{}
	for _, n := range corpus.Standard() {
		std[n] = true
	}
	var names, rich []string
	for _, n := range genNames {
		if std[n] {
			names = append(names, n)
			if universe[n].mt.Descriptor().Fields().Len() >= 20 {
				rich = append(rich, n)
			}
		}
	}
	pbt.Run(t, pbt.Prop[partnerCase]{
		Name: "nil-vs-populated",
		Rule: "generated type from corpus.Standard() and a descriptor-directed random message of it (possibly empty) as comparison partner of the typed nil pointer: proto.Equal is false in both orders; protoreflect.Value.Equal sees the typed nil as empty; non-trivial = partner has >= 1 populated field or unknown bytes",
		Draw: func(t *rapid.T) partnerCase {
			c := partnerCase{Type: gen.TypeName(names, rich).Draw(t, "type")}
			o := gen.DefaultMsgOpts
			o.MaxFields = 3
			o.Depth = 2
			c.M = gen.DrawMessage(t, universe[c.Type].mt.Descriptor(), o)
			return c
		},
		Check:      checkPartner,
		NonTrivial: func(c partnerCase) bool { return len(c.M.Fields) > 0 || len(c.M.Unknown) > 0 },
		Classes: func(c partnerCase) []string {
			if len(c.M.Fields) == 0 && len(c.M.Unknown) == 0 {
				return []string{"partner-empty"}
			}
			return []string{"partner-populated"}
		},
		Quick: 4000, Thorough: 40000,
	})
}
