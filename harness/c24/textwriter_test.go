package c24

// An independent text-format writer (written from the text format specification,
// protobuf.dev/reference/protobuf/textformat-spec, never calling prototext) that renders a model
// value with syntax variety: {} and <> delimiters, optional ':' before message values, ',' / ';'
// / whitespace separators, comments, adjacent string literals with mixed quotes and escape
// styles, decimal / hex / octal integers, '-' separated from its number, float spellings
// (shortest, exponent, exact decimal expansion, suffix f, leading '.', trailing '.',
// case-insensitive inf / infinity / nan), bool spellings, enum names or numbers, list syntax
// [a, b] mixed with repeated occurrences, map entries in both field orders with omitted zero
// key / value, group fields by message name, extensions as [pkg.ext], Any expanded as [url] {…}.

import (
	"fmt"
	"math"
	"math/big"
	"strconv"
	"strings"
	"testing"
	"unicode/utf8"

	"google.golang.org/protobuf/reflect/protoreflect"
	"google.golang.org/protobuf/zverif/gen"
	"google.golang.org/protobuf/zverif/mcase"
	"google.golang.org/protobuf/zverif/model"
	"google.golang.org/protobuf/zverif/pbt"
	"pgregory.net/rapid"
)

func validUTF8(b []byte) bool { return utf8.Valid(b) }

func floatClass(k protoreflect.Kind, u uint64) string {
	var x float64
	size := 64
	if k == protoreflect.FloatKind {
		x, size = float64(math.Float32frombits(uint32(u))), 32
	} else {
		x = math.Float64frombits(u)
	}
	switch {
	case math.IsNaN(x):
		return "float-nan"
	case math.IsInf(x, 0):
		return "float-inf"
	case x == 0 && math.Signbit(x):
		return "float-negzero"
	case x == 0:
		return "float-zero"
	case size == 32 && math.Abs(x) < 0x1p-126, size == 64 && math.Abs(x) < 0x1p-1022:
		return "float-subnormal"
	}
	s := strconv.FormatFloat(x, 'e', -1, size)
	if digits := len(s[:strings.IndexByte(s, 'e')]) - strings.Count(s[:strings.IndexByte(s, 'e')], ".") - strings.Count(s, "-")/2; digits > 6 {
		return "float-long"
	}
	return "float-short"
}

type writer struct {
	t   *rapid.T
	b   strings.Builder
	cls map[string]bool
}

func (w *writer) n(k int, label string) int {
	if k <= 1 {
		return 0
	}
	return rapid.IntRange(0, k-1).Draw(w.t, label)
}
func (w *writer) coin(label string) bool { return w.n(2, label) == 1 }
func (w *writer) mark(c string)          { w.cls[c] = true }

// ws writes optional whitespace / comments (possibly nothing).
func (w *writer) ws() {
	switch w.n(8, "ws") {
	case 0, 1, 2:
	case 3, 4:
		w.b.WriteString(" ")
	case 5:
		w.b.WriteString("\n")
	case 6:
		w.b.WriteString("\t \n  ")
	default:
		w.mark("comment")
		w.b.WriteString(" # " + []string{"a comment", "x: 1 }", "\"", ""}[w.n(4, "comment")] + "\n")
	}
}

// sep terminates a field: at least one separating character.
func (w *writer) sep() {
	switch w.n(7, "sep") {
	case 0, 1:
		w.b.WriteString(" ")
	case 2:
		w.b.WriteString("\n")
	case 3:
		w.mark("comma")
		w.b.WriteString(",")
	case 4:
		w.mark("semicolon")
		w.b.WriteString(";")
	case 5:
		w.mark("comma")
		w.b.WriteString(" , ")
	default:
		w.mark("semicolon")
		w.b.WriteString(" ;\n")
	}
	w.ws()
}

func groupLike(fd protoreflect.FieldDescriptor) bool {
	if fd.Kind() != protoreflect.GroupKind {
		return false
	}
	md := fd.Message()
	if strings.ToLower(string(md.Name())) != string(fd.Name()) || md.ParentFile().Path() != fd.ParentFile().Path() {
		return false
	}
	return md.FullName().Parent() == fd.FullName().Parent()
}

func (w *writer) name(fd protoreflect.FieldDescriptor) {
	switch {
	case fd.IsExtension():
		w.mark("extension")
		w.b.WriteString("[")
		if w.n(4, "extws") == 0 {
			w.b.WriteString(" ")
		}
		w.b.WriteString(string(fd.FullName()))
		w.b.WriteString("]")
	case groupLike(fd):
		w.mark("group")
		w.b.WriteString(string(fd.Message().Name()))
	default:
		w.b.WriteString(string(fd.Name()))
	}
}

func (w *writer) intLit(neg bool, mag uint64) {
	if neg {
		w.b.WriteString("-")
		if w.n(6, "negws") == 0 {
			w.mark("minus-separated")
			w.b.WriteString([]string{" ", "\n", " # c\n "}[w.n(3, "negwskind")])
		}
	}
	switch w.n(5, "intstyle") {
	case 0:
		w.mark("hex")
		if w.coin("hexcase") {
			w.b.WriteString("0x" + strconv.FormatUint(mag, 16))
		} else {
			w.b.WriteString("0X" + strings.ToUpper(strconv.FormatUint(mag, 16)))
		}
	case 1:
		w.mark("octal")
		w.b.WriteString("0" + strconv.FormatUint(mag, 8))
	default:
		w.b.WriteString(strconv.FormatUint(mag, 10))
	}
}

func (w *writer) signed(v int64) {
	if v < 0 {
		w.intLit(true, uint64(-(v+1))+1)
	} else {
		w.intLit(false, uint64(v))
	}
}

func (w *writer) floatLit(x float64, size int) {
	anyCase := func(s string) string {
		switch w.n(3, "case") {
		case 0:
			return s
		case 1:
			return strings.ToUpper(s)
		}
		return strings.ToUpper(s[:1]) + s[1:]
	}
	switch {
	case math.IsNaN(x):
		w.mark("nan-literal")
		w.b.WriteString(anyCase("nan"))
		return
	case math.IsInf(x, 0):
		w.mark("inf-literal")
		s := anyCase([]string{"inf", "infinity"}[w.n(2, "inf")])
		if x < 0 {
			s = "-" + s
		}
		w.b.WriteString(s)
		return
	}
	var s string
	switch w.n(6, "floatstyle") {
	case 0:
		s = strconv.FormatFloat(x, 'e', -1, size)
		if w.coin("E") {
			s = strings.ToUpper(s)
		}
		w.mark("float-exponent")
	case 1: // exact decimal expansion of the binary value
		s = new(big.Float).SetFloat64(x).Text('f', 1100) // a finite binary fraction has at most 1074 fractional digits
		s = strings.TrimRight(s, "0")
		s = strings.TrimSuffix(s, ".")
		if len(s) > 300 { // very small / very large magnitudes: keep the document small
			s = strconv.FormatFloat(x, 'g', -1, size)
		} else {
			w.mark("float-exact-decimal")
		}
	case 2: // more digits than needed (17 significant digits determine any double)
		s = strconv.FormatFloat(x, 'e', 19, 64)
		w.mark("float-20-digits")
	default:
		s = strconv.FormatFloat(x, 'g', -1, size)
	}
	if !strings.ContainsAny(s, "eE") {
		switch {
		case strings.HasPrefix(s, "0.") && w.coin("leadingdot"):
			s = s[1:]
			w.mark("float-leading-dot")
		case strings.HasPrefix(s, "-0.") && w.coin("leadingdot"):
			s = "-" + s[2:]
			w.mark("float-leading-dot")
		case !strings.Contains(s, ".") && w.n(3, "trailingdot") == 0:
			s += "."
			w.mark("float-trailing-dot")
		}
	}
	if w.n(3, "fsuffix") == 0 {
		s += []string{"f", "F"}[w.n(2, "F")]
		w.mark("float-suffix-f")
	}
	w.b.WriteString(s)
}

// strLit writes bytes as one or more adjacent literals.
func (w *writer) strLit(b []byte) {
	parts := 1
	if w.n(4, "concat") == 0 {
		parts = 2 + w.n(2, "parts")
		w.mark("string-concat")
	}
	cuts := []int{0}
	for i := 1; i < parts; i++ {
		cuts = append(cuts, w.n(len(b)+1, "cut"))
	}
	cuts = append(cuts, len(b))
	for i := 1; i < len(cuts); i++ { // sort the few cut points
		for j := i; j > 0 && cuts[j] < cuts[j-1]; j-- {
			cuts[j], cuts[j-1] = cuts[j-1], cuts[j]
		}
	}
	for i := 0; i+1 < len(cuts); i++ {
		if i > 0 {
			w.b.WriteString([]string{"", " ", "\n", " # c\n"}[w.n(4, "between")])
		}
		w.oneLit(b[cuts[i]:cuts[i+1]])
	}
}

func (w *writer) oneLit(b []byte) {
	q := byte('"')
	if w.n(3, "quote") == 0 {
		q = '\''
		w.mark("single-quote")
	}
	style := w.n(4, "escstyle") // 0 minimal, 1 hex, 2 octal, 3 unicode escapes where possible
	w.b.WriteByte(q)
	for i := 0; i < len(b); {
		c := b[i]
		r, size := utf8.DecodeRune(b[i:])
		switch {
		case r != utf8.RuneError && size > 1: // a valid multi-byte sequence
			switch {
			case style == 3 && r <= 0xffff:
				w.mark("escape-u")
				fmt.Fprintf(&w.b, "\\u%04x", r)
			case style == 3:
				w.mark("escape-U")
				fmt.Fprintf(&w.b, "\\U%08x", r)
			case style == 1:
				for _, x := range b[i : i+size] {
					fmt.Fprintf(&w.b, "\\x%02x", x)
				}
			default:
				w.b.Write(b[i : i+size])
			}
			i += size
			continue
		case c == q || c == '\\':
			w.b.WriteByte('\\')
			w.b.WriteByte(c)
		case c >= 0x20 && c < 0x7f && style == 0, c >= 0x20 && c < 0x7f && c != '"' && c != '\'' && w.coin("raw"):
			if c == '"' || c == '\'' { // the other quote may stay raw, or be escaped
				if w.coin("escquote") {
					w.b.WriteByte('\\')
				}
			}
			w.b.WriteByte(c)
		case c == '\n' && style != 1 && style != 2:
			w.b.WriteString("\\n")
		case c == '\t' && style == 0:
			w.b.WriteString("\\t")
		case c == '\r' && style == 0:
			w.b.WriteString("\\r")
		case style == 2 || style == 0 && c >= 0x7f:
			w.mark("escape-octal")
			fmt.Fprintf(&w.b, "\\%03o", c)
		default:
			w.mark("escape-hex")
			if w.coin("X") {
				fmt.Fprintf(&w.b, "\\x%02X", c)
			} else {
				fmt.Fprintf(&w.b, "\\x%02x", c)
			}
		}
		i++
	}
	w.b.WriteByte(q)
}

func (w *writer) scalar(fd protoreflect.FieldDescriptor, v model.Val) {
	switch fd.Kind() {
	case protoreflect.BoolKind:
		if v.U != 0 {
			w.b.WriteString([]string{"true", "True", "t", "1"}[w.n(4, "bool")])
		} else {
			w.b.WriteString([]string{"false", "False", "f", "0"}[w.n(4, "bool")])
		}
	case protoreflect.EnumKind:
		n := int32(v.U)
		ev := fd.Enum().Values().ByNumber(protoreflect.EnumNumber(n))
		if ev != nil && w.n(3, "enumnum") != 0 {
			w.b.WriteString(string(ev.Name()))
		} else {
			w.mark("enum-number")
			w.signed(int64(n))
		}
	case protoreflect.Int32Kind, protoreflect.Sint32Kind, protoreflect.Sfixed32Kind:
		w.signed(int64(int32(v.U)))
	case protoreflect.Int64Kind, protoreflect.Sint64Kind, protoreflect.Sfixed64Kind:
		w.signed(int64(v.U))
	case protoreflect.Uint32Kind, protoreflect.Fixed32Kind:
		w.intLit(false, uint64(uint32(v.U)))
	case protoreflect.Uint64Kind, protoreflect.Fixed64Kind:
		w.intLit(false, v.U)
	case protoreflect.FloatKind:
		w.floatLit(float64(math.Float32frombits(uint32(v.U))), 32)
	case protoreflect.DoubleKind:
		w.floatLit(math.Float64frombits(v.U), 64)
	case protoreflect.StringKind, protoreflect.BytesKind:
		w.strLit(v.B)
	default:
		panic("scalar: " + fd.Kind().String())
	}
}

// msgValue writes [:] { … } or < … >.
func (w *writer) msgValue(md protoreflect.MessageDescriptor, m *model.Msg) {
	if w.n(3, "msgcolon") == 0 {
		w.mark("colon-before-message")
		w.ws()
		w.b.WriteString(":")
	}
	w.ws()
	w.braces(md, m)
}

func (w *writer) braces(md protoreflect.MessageDescriptor, m *model.Msg) {
	open, close := "{", "}"
	if w.n(3, "angle") == 0 {
		open, close = "<", ">"
		w.mark("angle-brackets")
	}
	w.b.WriteString(open)
	w.ws()
	w.fields(md, m)
	w.b.WriteString(close)
}

func (w *writer) value(fd protoreflect.FieldDescriptor, v model.Val) {
	if fd.Message() != nil {
		w.msgValue(fd.Message(), v.M)
		return
	}
	w.ws()
	w.b.WriteString(":")
	w.ws()
	w.scalar(fd, v)
}

// list writes name: [v, v, …] (the ':' is optional before a list of messages).
func (w *writer) list(fd protoreflect.FieldDescriptor, vals []model.Val) {
	w.mark("list-syntax")
	w.name(fd)
	w.ws()
	if fd.Message() == nil || w.coin("listcolon") {
		w.b.WriteString(":")
		w.ws()
	}
	w.b.WriteString("[")
	w.ws()
	for i, v := range vals {
		if i > 0 {
			w.b.WriteString(",")
			w.ws()
		}
		if fd.Message() != nil {
			w.braces(fd.Message(), v.M)
		} else {
			w.scalar(fd, v)
		}
		w.ws()
	}
	w.b.WriteString("]")
	w.sep()
}

func (w *writer) fields(md protoreflect.MessageDescriptor, m *model.Msg) {
	if m == nil {
		return
	}
	if md.FullName() == "google.protobuf.Any" && len(m.Fields) > 0 {
		url := ""
		if f := m.Get(1); f != nil {
			url = string(f.Vals[0].B)
		}
		if emd, emb, ok := gen.DecodeAny(m); ok && urlWritable(url) && w.n(4, "expand") != 0 {
			w.mark("any-expanded")
			w.b.WriteString("[")
			w.b.WriteString(url)
			w.b.WriteString("]")
			w.msgValue(emd, emb)
			w.sep()
			return
		}
		w.mark("any-plain")
		if _, _, ok := gen.DecodeAny(m); ok {
			w.mark("any-plain-decodable") // payload bytes stay as written (not re-encoded)
		}
	}
	for _, f := range m.Fields {
		fd := model.FieldDesc(md, f.Num, nil)
		if fd == nil {
			panic(fmt.Sprintf("writer: field %d of %s", f.Num, md.FullName()))
		}
		switch {
		case fd.IsMap():
			w.mark("map")
			ed := fd.Message()
			var entries []model.Val
			for i := range f.Keys {
				e := &model.Msg{}
				kf := model.Field{Num: 1, Vals: []model.Val{f.Keys[i]}}
				vf := model.Field{Num: 2, Vals: []model.Val{f.Vals[i]}}
				// the zero key / zero scalar value / empty message value may be left out
				omitK := model.IsZero(fd.MapKey(), f.Keys[i]) && w.coin("omitkey")
				omitV := w.coin("omitval") && (fd.MapValue().Message() == nil && model.IsZero(fd.MapValue(), f.Vals[i]) && !(fd.MapValue().Kind() == protoreflect.EnumKind) ||
					fd.MapValue().Message() != nil && (f.Vals[i].M == nil || len(f.Vals[i].M.Fields) == 0))
				if omitK || omitV {
					w.mark("map-entry-omitted-field")
				}
				switch {
				case w.coin("valuefirst"):
					w.mark("map-value-first")
					if !omitV {
						e.Fields = append(e.Fields, vf)
					}
					if !omitK {
						e.Fields = append(e.Fields, kf)
					}
				default:
					if !omitK {
						e.Fields = append(e.Fields, kf)
					}
					if !omitV {
						e.Fields = append(e.Fields, vf)
					}
				}
				entries = append(entries, model.Val{M: e})
			}
			w.repeated(mapEntryField{fd, ed}, entries)
		case fd.IsList():
			w.repeated(fd, f.Vals)
		default:
			w.name(fd)
			w.value(fd, f.Vals[0])
			w.sep()
		}
	}
}

// mapEntryField presents a map field as a repeated field of its entry message.
type mapEntryField struct {
	protoreflect.FieldDescriptor
	entry protoreflect.MessageDescriptor
}

func (m mapEntryField) IsMap() bool                            { return false }
func (m mapEntryField) IsList() bool                           { return true }
func (m mapEntryField) Message() protoreflect.MessageDescriptor { return m.entry }
func (m mapEntryField) Kind() protoreflect.Kind                { return protoreflect.MessageKind }

// repeated writes the elements as separate occurrences, as list literals, or a mix of both.
func (w *writer) repeated(fd protoreflect.FieldDescriptor, vals []model.Val) {
	for i := 0; i < len(vals); {
		if w.n(3, "uselist") == 0 {
			k := 1 + w.n(len(vals)-i, "listlen")
			w.list(fd, vals[i:i+k])
			i += k
			continue
		}
		w.name(fd)
		w.value(fd, vals[i])
		w.sep()
		i++
	}
}

// urlWritable: the text format writes a type URL between brackets as [domain/]full.name with a
// restricted alphabet; other URLs can only be written in the plain type_url / value form.
func urlWritable(url string) bool {
	if url == "" || strings.HasPrefix(url, "/") && strings.Count(url, "/") > 1 {
		return false
	}
	for i := 0; i < len(url); i++ {
		c := url[i]
		if !(c >= 'a' && c <= 'z' || c >= 'A' && c <= 'Z' || c >= '0' && c <= '9' || c == '.' || c == '/' || c == '-' || c == '_') {
			return false
		}
	}
	return true
}

// ---------------------------------------------------------------------------------------------

type docCase struct {
	Type    string
	Dynamic bool
	M       *model.Msg
	Doc     string
	Syntax  []string // syntax classes used (evidence only)
}

func drawDoc(t *rapid.T) docCase {
	c := docCase{Type: drawType(t), Dynamic: rapid.IntRange(0, 3).Draw(t, "dyn") == 0}
	c.M = drawContent(t, c.Type)
	w := &writer{t: t, cls: map[string]bool{}}
	w.ws()
	w.fields(mcase.Desc(c.Type), c.M)
	c.Doc = w.b.String()
	c.Syntax = classList(w.cls)
	return c
}

func checkDoc(c docCase) error {
	md := mcase.Desc(c.Type)
	sem, exact, nanInAny := gen.Textual(md, c.M, nil)
	want := mcase.New(c.Type, c.Dynamic)
	if err := model.Apply(want, exact, nil); err != nil {
		return fmt.Errorf("harness: %v", err)
	}
	for _, s := range c.Syntax {
		if s == "any-plain-decodable" {
			// type_url / value written as plain fields keep the payload bytes as they are, while the
			// expected message carries the deterministic re-encoding: compare by content only
			want = nil
		}
	}
	return compare(c.Type, c.Dynamic, []byte(c.Doc), sem, want, nanInAny, "document of the independent writer")
}

func TestWriterDocuments(t *testing.T) {
	pbt.Run(t, pbt.Prop[docCase]{
		Name: "text-documents",
		Rule: "content as in text-roundtrip, rendered by an independent text-format writer with syntax variety ({} / <>, optional ':' before messages, ',' ';' separators, comments, adjacent string literals with both quotes and hex / octal / \\u / \\U escapes, hex and octal integers, '-' separated from the number, float spellings incl. exact decimal expansions, 20-digit mantissas, suffix f, leading / trailing '.', any-case inf / infinity / nan, bool spellings, enum numbers, list syntax mixed with repeated occurrences, map entries value-first and with omitted zero fields, groups by message name, [pkg.ext] extensions, Any expanded as [url] {…}); prototext.Unmarshal must yield the model without unknown fields (floats bit-for-bit, all NaNs one class; proto.Equal). non-trivial = >= 2 populated fields and >= 3 syntax classes",
		Draw: drawDoc, Check: checkDoc,
		NonTrivial: func(c docCase) bool {
			n := 0
			walk(mcase.Desc(c.Type), c.M, map[string]bool{}, &n, false)
			return n >= 2 && len(c.Syntax) >= 3
		},
		Classes: func(c docCase) []string {
			out := append([]string{}, c.Syntax...)
			if c.Dynamic {
				out = append(out, "dynamicpb")
			}
			return out
		},
		Quick: 20000, Thorough: 80000,
	})
}
