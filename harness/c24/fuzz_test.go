package c24

import (
	"fmt"
	"google.golang.org/protobuf/proto"
	"google.golang.org/protobuf/reflect/protoregistry"
	"os"
	"path/filepath"
	"runtime/debug"
	"strings"
	"testing"

	"google.golang.org/protobuf/encoding/prototext"
	"google.golang.org/protobuf/reflect/protoreflect"
	"google.golang.org/protobuf/zverif/gen"
	"google.golang.org/protobuf/zverif/mcase"
	"google.golang.org/protobuf/zverif/model"
	"google.golang.org/protobuf/zverif/pbt"
	"pgregory.net/rapid"
)

// Native fuzz target (thorough tier; `go test -fuzz`): fuzzer-chosen text-format BYTES are parsed
// into one of ~20 corpus types. Whatever prototext.Unmarshal accepts is a message with valid
// content; its snapshot becomes the model value of the package's round-trip check, so the
// assertions are exactly those of checkCase: Marshal succeeds under the chosen options, the output
// obeys the layout / EmitASCII rules, and Unmarshal(Marshal(m)) (generated and dynamicpb) equals
// the content (floats bit-for-bit, all NaNs one class, Any payloads by content), proto.Equal both
// ways. Unmarshal itself must not panic on any input.
var fuzzTypes = pick(stdTypes, func(n string) bool {
	switch n {
	case "pb2.Scalars", "pb2.Enums", "pb2.Repeats", "pb2.Nests", "pb2.Maps", "pb2.Extensions", "pb2.KnownTypes", "pb2.Requireds",
		"pb3.Scalars", "pb3.Maps", "pb3.Oneofs", "pb3.Proto3Optional",
		"pbeditions.Scalars", "pbeditions.Nests", "opaque.pbeditions.KnownTypes",
		"goproto.proto.test.TestAllTypes", "goproto.proto.test.TestAllExtensions", "goproto.proto.test3.TestAllTypes",
		"opaque.goproto.proto.testeditions.TestAllTypes", "goproto.proto.fuzz.Fuzz",
		"protobuf_test_messages.proto3.TestAllTypesProto3", "protobuf_test_messages.editions.TestAllTypesEdition2023",
		"google.protobuf.Any", "google.protobuf.Struct", "google.protobuf.FileDescriptorProto":
		return true
	}
	return false
})

type fzCase struct {
	Type    string
	Dynamic bool
	Opts    int
	Indent  string
	Text    []byte
}

var fuzzIndents = []string{" ", "  ", "\t", "    ", " \t", "\t\t "}

func checkFuzzText(c fzCase) error {
	m := mcase.New(c.Type, c.Dynamic)
	if err := (prototext.UnmarshalOptions{AllowPartial: true}).Unmarshal(c.Text, m.Interface()); err != nil {
		return nil // rejected: nothing to round-trip (a panic is caught by the caller)
	}
	tc := tcase{Type: c.Type, Dynamic: c.Dynamic, M: model.Snapshot(m), Opts: []int{c.Opts & 7}, Indent: c.Indent}
	if anyDeeperThan(mcase.Desc(c.Type), tc.M, 4) {
		return nil // generator: Any nested 2 deep; the reference normaliser decodes every level again and again
	}
	if anyPayloadHasUnknownR(m) {
		// generator: the property speaks of content without unknown fields, and that includes the
		// payload of an Any (the expanded text form cannot write fields its type does not declare)
		return nil
	}
	if err := checkCase(tc); err != nil {
		if strings.HasPrefix(err.Error(), "harness:") {
			return nil // the model could not be rebuilt through reflection: no verdict
		}
		return fmt.Errorf("input text %q parsed into %s: %w", clip(c.Text), c.Type, err)
	}
	return nil
}

// anyPayloadHasUnknownR walks the decoded message: for every google.protobuf.Any whose type (the
// name after the last slash, or the whole URL) is linked, the payload is decoded; unknown fields in
// it (at any depth, nested Any payloads included), or a payload that does not decode, put the case
// outside the round-trip domain.
func anyPayloadHasUnknownR(m protoreflect.Message) bool {
	found := false
	var walk func(m protoreflect.Message, inPayload bool)
	walk = func(m protoreflect.Message, inPayload bool) {
		if found {
			return
		}
		if inPayload && len(m.GetUnknown()) > 0 {
			found = true
			return
		}
		if m.Descriptor().FullName() == "google.protobuf.Any" {
			url := m.Get(m.Descriptor().Fields().ByNumber(1)).String()
			val := m.Get(m.Descriptor().Fields().ByNumber(2)).Bytes()
			name := url
			if i := strings.LastIndexByte(url, '/'); i >= 0 {
				name = url[i+1:]
			}
			if mt, err := protoregistry.GlobalTypes.FindMessageByName(protoreflect.FullName(name)); err == nil {
				p := mt.New()
				if err := (proto.UnmarshalOptions{AllowPartial: true}).Unmarshal(val, p.Interface()); err != nil {
					found = true
					return
				}
				walk(p, true)
			}
			return
		}
		m.Range(func(fd protoreflect.FieldDescriptor, v protoreflect.Value) bool {
			switch {
			case fd.IsMap():
				if fd.MapValue().Message() != nil {
					v.Map().Range(func(_ protoreflect.MapKey, e protoreflect.Value) bool { walk(e.Message(), inPayload); return !found })
				}
			case fd.IsList():
				if fd.Message() != nil {
					for i := 0; i < v.List().Len() && !found; i++ {
						walk(v.List().Get(i).Message(), inPayload)
					}
				}
			case fd.Message() != nil:
				walk(v.Message(), inPayload)
			}
			return !found
		})
	}
	walk(m, false)
	return found
}

// hasUnknownDeep reports whether m or any message below it holds unknown fields.
func hasUnknownDeep(md protoreflect.MessageDescriptor, m *model.Msg) bool {
	if m == nil {
		return false
	}
	if len(m.Unknown) > 0 {
		return true
	}
	for _, f := range m.Fields {
		fd := model.FieldDesc(md, f.Num, nil)
		if fd == nil {
			continue
		}
		vd := fd
		if fd.IsMap() {
			vd = fd.MapValue()
		}
		if vd.Message() == nil {
			continue
		}
		for _, v := range f.Vals {
			if hasUnknownDeep(vd.Message(), v.M) {
				return true
			}
		}
	}
	return false
}

// anyPayloadHasUnknown reports whether some Any in the tree carries a payload that decodes with
// unknown fields (at any depth, nested Any payloads included).
func anyPayloadHasUnknown(md protoreflect.MessageDescriptor, m *model.Msg) bool {
	if m == nil {
		return false
	}
	if md.FullName() == "google.protobuf.Any" {
		if emd, emb, ok := gen.DecodeAny(m); ok {
			return hasUnknownDeep(emd, emb) || anyPayloadHasUnknown(emd, emb)
		}
		return false
	}
	for _, f := range m.Fields {
		fd := model.FieldDesc(md, f.Num, nil)
		if fd == nil {
			continue
		}
		vd := fd
		if fd.IsMap() {
			vd = fd.MapValue()
		}
		if vd.Message() == nil {
			continue
		}
		for _, v := range f.Vals {
			if anyPayloadHasUnknown(vd.Message(), v.M) {
				return true
			}
		}
	}
	return false
}

// anyDeeperThan reports whether Any values are nested in Any payloads more than max deep.
func anyDeeperThan(md protoreflect.MessageDescriptor, m *model.Msg, max int) bool {
	if m == nil {
		return false
	}
	if md.FullName() == "google.protobuf.Any" {
		if max <= 0 {
			return true
		}
		if emd, emb, ok := gen.DecodeAny(m); ok {
			return anyDeeperThan(emd, emb, max-1)
		}
		return false
	}
	for _, f := range m.Fields {
		fd := model.FieldDesc(md, f.Num, nil)
		if fd == nil {
			continue
		}
		vd := fd
		if fd.IsMap() {
			vd = fd.MapValue()
		}
		if vd.Message() == nil {
			continue
		}
		for _, v := range f.Vals {
			if anyDeeperThan(vd.Message(), v.M, max) {
				return true
			}
		}
	}
	return false
}

func fuzzSeeds() []fzCase {
	var out []fzCase
	// valid documents: the rapid generator's own messages, marshalled
	for i, ty := range fuzzTypes {
		g := rapid.Custom(func(t *rapid.T) tcase {
			c := tcase{Type: ty}
			c.M = drawContent(t, ty)
			return c
		})
		for k := 0; k < 3; k++ {
			c := g.Example(i*5 + k)
			m := mcase.New(ty, false)
			if model.Apply(m, c.M, nil) != nil {
				continue
			}
			mo := prototext.MarshalOptions{Multiline: k == 1, EmitASCII: k == 2, AllowPartial: true}
			if b, err := mo.Marshal(m.Interface()); err == nil && len(b) < 1<<12 {
				out = append(out, fzCase{Type: ty, Dynamic: k == 2, Opts: (i + k) & 7, Indent: fuzzIndents[(i+k)%len(fuzzIndents)], Text: b})
			}
		}
	}
	hostile := []string{
		``, `#`, `{`, `}`, `[`, `<>`, `:`, `,`, `;`,
		`opt_int32: 0x7fffffff opt_int64: -0x8000000000000000 opt_uint64: 0xffffffffffffffff`,
		`opt_int32: 2147483648`, `opt_int32: 017777777777`, `opt_int32: 08`, `opt_uint32: -0`, `opt_int32: - 1`,
		`opt_float: 3.4028235e38 opt_double: 1.7976931348623157e308`, `opt_float: 3.4028236e38`, `opt_float: 7.038531e-26`, `opt_float: 1e-46 opt_double: 4.9e-324`,
		`opt_float: nan opt_double: -nan`, `opt_float: -inf opt_double: infinity`, `opt_float: 1f opt_double: 1.f`, `opt_float: .5 opt_double: 5.`, `opt_float: 1e opt_double: 0x1p3`, `opt_float: -0 opt_double: -0.0`,
		`opt_string: "a" 'b' "c"`, `opt_string: "\xff\377é\U0010ffff\ud800"`, `opt_string: "\z"`, `opt_string: "unterminated`, `opt_bytes: "\000\x00\n\"\'\\"`,
		`opt_bool: True opt_bool: f`, `opt_bool: 1`, `opt_bool: t opt_nested_enum: 99`, `opt_nested_enum: -1`, `opt_nested_enum: UNKNOWN_NAME`,
		`rpt_int32: [1, 2, 3] rpt_int32: 4 rpt_int32: []`, `rpt_nested: [{}, <>, {opt_string: "x"}]`, `rpt_int32: [1,]`,
		`int32_to_str: {key: 1 value: "a"} int32_to_str: {value: "b"} int32_to_str: {} int32_to_str: [{key: 2}, {key: 1}]`, `int32_to_str: {key: 1 key: 2}`,
		`str_to_nested: {key: "" value: {}} str_to_nested: <key: "k", value: <opt_string: "v">>`,
		`opt_nested: {opt_nested: {opt_nested: {opt_nested: {opt_string: "deep"}}}}`, `opt_nested {} opt_nested {}`, `optgroup: {opt_string: "g"} OptGroup {}`, `OptGroup < opt_fixed32: 1 >; rptgroup { rpt_string: "x" }, RptGroup {}`,
		`[pb2.opt_ext_bool]: true [pb2.opt_ext_nested]: {opt_string: "x"} [ pb2 . rpt_ext_fixed32 ]: [1, 2]`, `[pb2.ExtensionsContainer.opt_ext_string]: "s"`, `[pb2.no_such_ext]: 1`, `[]: 1`, `[pb2.opt_ext_bool: true`,
		`opt_any: {[type.googleapis.com/pb2.Nested]: {opt_string: "in any"}}`, `opt_any: {type_url: "x/pb2.Nested" value: "\n\001a"}`, `opt_any: {[pb2.Nested]: {}}`, `opt_any: {[a/b/c/google.protobuf.Any]: {[/google.protobuf.Empty]: {}}}`,
		`[type.googleapis.com/google.protobuf.Duration]: {seconds: -315576000001 nanos: 1000000000}`, `[x/google.protobuf.Value] {number_value: nan}`, `type_url: "a b#c/google.protobuf.Empty"`, `[type.googleapis.com/google.protobuf.Any]: {[type.googleapis.com/pb2.Nested]: {opt_nested: {}}} `,
		`[x/pb3.Maps] {int32_to_str {key: 2 value: "b"} int32_to_str {key: 1 value: "a"}}`, `[x/y] {}`, `[x/pb2.Nested] {} type_url: "y"`, `type_url: "x/pb2.Requireds" value: ""`,
		`opt_duration: {seconds: 1} opt_timestamp: {nanos: -1} opt_struct: {fields: {key: "k" value: {list_value: {values: {null_value: NULL_VALUE}}}}} opt_value: {} opt_empty: {} opt_fieldmask: {paths: "a.b"}`,
		`fields: {key: "\xff" value: {string_value: "\xff"}}`, `s_string: "\xff"`,
		`req_bool: true`, `opt_int32: 1 opt_int32: 2`, `oneof_enum: ONE oneof_string: "x"`, `1: 2`, `opt_int32 1`, `opt_nested: 1`, `opt_string: {}`,
		"opt_int32: 1 # comment\n# another\nopt_string: \"x\" # \"", "opt_string:\n\t\"a\"\n\r\n \"b\"", "\xef\xbb\xbfopt_int32: 1", "opt_int32\x00: 1",
		`name: "f.proto" message_type: {name: "M" field: {name: "f" number: 1 type: TYPE_INT32 options: {packed: true [goproto.proto.test.x]: 1}}} options: {go_package: "p" uninterpreted_option: {name: {name_part: "x" is_extension: false} double_value: 1e400}}`,
	}
	hostile = append(hostile, strings.Repeat("opt_nested:{", 200)+strings.Repeat("}", 200), strings.Repeat("optional_nested_message <", 60)+strings.Repeat(">", 60),
		strings.Repeat("fields{key:\"\"value{struct_value{", 40)+strings.Repeat("}}}", 40), "opt_string: \""+strings.Repeat("\\xff", 50)+"\"")
	for i, ty := range fuzzTypes {
		for k, h := range hostile {
			if (i+k)%4 == 0 || strings.HasPrefix(ty, "pb2.") && k%2 == 0 {
				out = append(out, fzCase{Type: ty, Dynamic: (i+k)%3 == 0, Opts: (i*3 + k) & 7, Indent: fuzzIndents[k%len(fuzzIndents)], Text: []byte(h)})
			}
		}
	}
	return out
}

func fuzzSafe[C any](check func(C) error, c C) (err error) {
	defer func() {
		if r := recover(); r != nil {
			err = fmt.Errorf("PANIC: %v\n%s", r, debug.Stack())
		}
	}()
	return check(c)
}

// TestFuzzSeeds registers the fuzz check for replay and runs the seed corpus in every tier.
func TestFuzzSeeds(t *testing.T) {
	pbt.Enumerate(t, "fuzz-text", "native fuzz target FuzzText (thorough tier): fuzzer-chosen text-format bytes parsed into one of "+fmt.Sprint(len(fuzzTypes))+" corpus types (generated or dynamicpb); the snapshot of every accepted message goes through the text-roundtrip check under one of the 8 option combinations; this sub-check replays the seed corpus (documents of generated messages + hostile documents)", false,
		func(yield func(fzCase, bool) bool) {
			for _, c := range fuzzSeeds() {
				if !yield(c, len(c.Text) > 16) {
					return
				}
			}
		}, checkFuzzText)
}

func FuzzText(f *testing.F) {
	repo := os.Getenv("VERIF_REPO")
	if repo == "" {
		repo = "/repo"
	}
	index := map[string]int{}
	for i, n := range fuzzTypes {
		index[n] = i
	}
	indentIndex := map[string]int{}
	for i, s := range fuzzIndents {
		indentIndex[s] = i
	}
	flagsOf := func(c fzCase) uint8 {
		fl := uint8(c.Opts&7) | uint8(indentIndex[c.Indent])<<4
		if c.Dynamic {
			fl |= 8
		}
		return fl
	}
	for _, c := range fuzzSeeds() {
		f.Add(c.Text, uint8(index[c.Type]), flagsOf(c))
	}
	files, _ := filepath.Glob(filepath.Join(repo, "internal/fuzz/textfuzz/corpus/*"))
	for _, p := range files {
		if b, err := os.ReadFile(p); err == nil && len(b) < 1<<12 {
			f.Add(b, uint8(index["goproto.proto.fuzz.Fuzz"]), uint8(1))
		}
	}
	f.Fuzz(func(t *testing.T, text []byte, ti uint8, flags uint8) {
		if len(text) > 1<<13 {
			return
		}
		c := fzCase{Type: fuzzTypes[int(ti)%len(fuzzTypes)], Dynamic: flags&8 != 0, Opts: int(flags & 7), Indent: fuzzIndents[int(flags>>4)%len(fuzzIndents)], Text: text}
		if err := fuzzSafe(checkFuzzText, c); err != nil {
			reportOnce("fuzz-text", c, err)
			t.Fatal(err)
		}
	})
}

// reportOnce writes the replay file of a failing input; while the fuzzing engine minimises it, the
// check fails again and again with smaller inputs: only the latest replay file of this process is kept.
var lastReplay string

func reportOnce(test string, c any, err error) {
	n := len(pbt.S.Violation)
	pbt.ReportViolation(nil, test, c, err)
	if len(pbt.S.Violation) > n {
		cur := pbt.S.Violation[len(pbt.S.Violation)-1]
		if lastReplay != "" && lastReplay != cur {
			os.Remove(lastReplay)
		}
		lastReplay = cur
	}
}
