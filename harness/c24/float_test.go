package c24

import (
	"fmt"
	"math"
	"runtime"
	"sync"
	"sync/atomic"
	"testing"

	"google.golang.org/protobuf/encoding/prototext"
	"google.golang.org/protobuf/internal/testprotos/textpb2"
	"google.golang.org/protobuf/zverif/pbt"
)

// floatCase: bit patterns sent through prototext in one repeated field (Batch) or singly through
// an optional field.
type floatCase struct {
	Bits   []uint64
	Double bool
	Single bool
	Opts   int // bit0 Multiline, bit2 EmitASCII
}

func same32(a, b uint32) bool {
	nan := func(x uint32) bool { return x&0x7f800000 == 0x7f800000 && x&0x007fffff != 0 }
	return a == b || nan(a) && nan(b)
}
func same64(a, b uint64) bool {
	nan := func(x uint64) bool { return x&0x7ff0000000000000 == 0x7ff0000000000000 && x&0x000fffffffffffff != 0 }
	return a == b || nan(a) && nan(b)
}

// floatBad returns the index of the first pattern that does not survive (-1: all survive).
func floatBad(c floatCase) (int, error) {
	mo := prototext.MarshalOptions{Multiline: c.Opts&1 != 0, EmitASCII: c.Opts&4 != 0}
	switch {
	case c.Single && !c.Double:
		for i, u := range c.Bits {
			x := math.Float32frombits(uint32(u))
			b, err := mo.Marshal(&textpb2.Scalars{OptFloat: &x})
			if err != nil {
				return i, fmt.Errorf("Marshal: %v", err)
			}
			var out textpb2.Scalars
			if err := prototext.Unmarshal(b, &out); err != nil {
				return i, fmt.Errorf("Unmarshal(%q): %v", b, err)
			}
			if out.OptFloat == nil || !same32(math.Float32bits(*out.OptFloat), uint32(u)) {
				return i, fmt.Errorf("float32 bits %#08x written as %q read back as %#08x", uint32(u), b, math.Float32bits(out.GetOptFloat()))
			}
		}
	case c.Single:
		for i, u := range c.Bits {
			x := math.Float64frombits(u)
			b, err := mo.Marshal(&textpb2.Scalars{OptDouble: &x})
			if err != nil {
				return i, fmt.Errorf("Marshal: %v", err)
			}
			var out textpb2.Scalars
			if err := prototext.Unmarshal(b, &out); err != nil {
				return i, fmt.Errorf("Unmarshal(%q): %v", b, err)
			}
			if out.OptDouble == nil || !same64(math.Float64bits(*out.OptDouble), u) {
				return i, fmt.Errorf("float64 bits %#016x written as %q read back as %#016x", u, b, math.Float64bits(out.GetOptDouble()))
			}
		}
	case !c.Double:
		in := &textpb2.Repeats{RptFloat: make([]float32, len(c.Bits))}
		for i, u := range c.Bits {
			in.RptFloat[i] = math.Float32frombits(uint32(u))
		}
		b, err := mo.Marshal(in)
		if err != nil {
			return 0, fmt.Errorf("Marshal: %v", err)
		}
		var out textpb2.Repeats
		if err := prototext.Unmarshal(b, &out); err != nil {
			return 0, fmt.Errorf("Unmarshal: %v", err)
		}
		if len(out.RptFloat) != len(c.Bits) {
			return 0, fmt.Errorf("%d elements read back, want %d", len(out.RptFloat), len(c.Bits))
		}
		for i, u := range c.Bits {
			if g := math.Float32bits(out.RptFloat[i]); !same32(g, uint32(u)) {
				return i, fmt.Errorf("float32 bits %#08x read back as %#08x (element %d of a repeated float)", uint32(u), g, i)
			}
		}
	default:
		in := &textpb2.Repeats{RptDouble: make([]float64, len(c.Bits))}
		for i, u := range c.Bits {
			in.RptDouble[i] = math.Float64frombits(u)
		}
		b, err := mo.Marshal(in)
		if err != nil {
			return 0, fmt.Errorf("Marshal: %v", err)
		}
		var out textpb2.Repeats
		if err := prototext.Unmarshal(b, &out); err != nil {
			return 0, fmt.Errorf("Unmarshal: %v", err)
		}
		if len(out.RptDouble) != len(c.Bits) {
			return 0, fmt.Errorf("%d elements read back, want %d", len(out.RptDouble), len(c.Bits))
		}
		for i, u := range c.Bits {
			if g := math.Float64bits(out.RptDouble[i]); !same64(g, u) {
				return i, fmt.Errorf("float64 bits %#016x read back as %#016x (element %d of a repeated double)", u, g, i)
			}
		}
	}
	return -1, nil
}

func checkFloat(c floatCase) error {
	_, err := floatBad(c)
	return err
}

func init() {
	pbt.Register(pbt.Prop[floatCase]{Name: "float-sweep", Check: checkFloat})
}

const batch = 4096

// sweep runs n patterns (at(i)) through batches of a repeated field on all cores, and every
// singleEvery-th pattern singly through the optional field. Returns the first failing case.
func sweep(n uint64, at func(i uint64) uint64, double bool, singleEvery uint64) (*floatCase, error, int64) {
	workers := runtime.GOMAXPROCS(0)
	var next atomic.Uint64
	var singles atomic.Int64
	var mu sync.Mutex
	var bad *floatCase
	var badErr error
	var wg sync.WaitGroup
	for w := 0; w < workers; w++ {
		wg.Add(1)
		go func() {
			defer wg.Done()
			buf := make([]uint64, 0, batch)
			for {
				lo := next.Add(batch) - batch
				if lo >= n {
					return
				}
				mu.Lock()
				stop := bad != nil
				mu.Unlock()
				if stop {
					return
				}
				hi := lo + batch
				if hi > n {
					hi = n
				}
				buf = buf[:0]
				for i := lo; i < hi; i++ {
					buf = append(buf, at(i))
				}
				c := floatCase{Bits: buf, Double: double, Opts: int(lo/batch) & 5}
				idx, err := floatBad(c)
				if err == nil && singleEvery > 0 {
					var one []uint64
					for i := lo; i < hi; i++ {
						if i%singleEvery == 0 {
							one = append(one, at(i))
						}
					}
					singles.Add(int64(len(one)))
					c = floatCase{Bits: one, Double: double, Single: true, Opts: c.Opts}
					idx, err = floatBad(c)
				}
				if err != nil {
					mu.Lock()
					if bad == nil {
						// shrink to the one failing pattern when it fails alone
						one := floatCase{Bits: []uint64{c.Bits[idx]}, Double: double, Single: c.Single, Opts: c.Opts}
						if _, e1 := floatBad(one); e1 != nil {
							bad, badErr = &one, e1
						} else {
							cc := c
							cc.Bits = append([]uint64(nil), c.Bits...)
							bad, badErr = &cc, err
						}
					}
					mu.Unlock()
					return
				}
			}
		}()
	}
	wg.Wait()
	return bad, badErr, singles.Load()
}

func splitmix(x *uint64) uint64 {
	*x += 0x9e3779b97f4a7c15
	z := *x
	z = (z ^ z>>30) * 0xbf58476d1ce4e5b9
	z = (z ^ z>>27) * 0x94d049bb133111eb
	return z ^ z>>31
}

var f32centres = []uint32{0x15ae43fd, 0x95ae43fd, 0x00000000, 0x00800000, 0x7f7fffff, 0x7f800000, 0x3f800000, 0x4b800000, 0x5f000000, 0x358637bd, 0x80000000}

func TestFloat32Sweep(t *testing.T) {
	if pbt.Skip() {
		t.Skip("replay or peer mode")
	}
	report := func(sub string, c *floatCase, err error) {
		pbt.ReportViolation(t, "float-sweep", *c, fmt.Errorf("%s: %v", sub, err))
	}
	if pbt.Thorough() {
		total := uint64(1) << 32
		ns := uint64(pbt.NShards)
		lo := total / ns * uint64(pbt.Shard)
		hi := total / ns * uint64(pbt.Shard+1)
		if uint64(pbt.Shard) == ns-1 {
			hi = total
		}
		bad, err, singles := sweep(hi-lo, func(i uint64) uint64 { return lo + i }, false, 64)
		if bad != nil {
			report("float32-sweep", bad, err)
			return
		}
		pbt.Count("float32-sweep", int64(hi-lo)+singles, int64(hi-lo), fmt.Sprintf("every float32 bit pattern in [%#08x, %#08x] (this shard; the %d shards cover all 2^32) through prototext Marshal -> Unmarshal in batches of %d in a repeated float (alternating Multiline / EmitASCII), every 64th also singly through an optional float; bit-for-bit, all NaNs one class", lo, hi-1, ns, batch),
			true, map[string]any{"from": fmt.Sprintf("%#08x", lo), "to": fmt.Sprintf("%#08x", hi-1), "singly": singles})
		return
	}
	n := uint64(pbt.N(3000000, 3000000))
	start := uint32(pbt.DeriveSeed("float32-sample"))
	const stride = 0x9e3779b1
	bad, err, singles := sweep(n, func(i uint64) uint64 { return uint64(start + uint32(i)*stride) }, false, 16)
	if bad != nil {
		report("float32-sample", bad, err)
		return
	}
	const win = 1 << 13
	bad, err, singles2 := sweep(uint64(len(f32centres))*2*win, func(i uint64) uint64 {
		return uint64(f32centres[i/(2*win)] - win + uint32(i%(2*win)))
	}, false, 1)
	if bad != nil {
		report("float32-windows", bad, err)
		return
	}
	pbt.Count("float32-sample", int64(n)+singles+int64(len(f32centres))*2*win+singles2, int64(n), fmt.Sprintf("float32 bit patterns start+i*0x9e3779b1 (start from the seed; all distinct) in batches of %d in a repeated float, every 16th also singly through an optional float, plus +-2^13 windows around %d boundary patterns (incl. the two former double-rounding patterns) both ways; bit-for-bit, all NaNs one class", batch, len(f32centres)),
		false, map[string]any{"start": fmt.Sprintf("%#08x", start), "stride": "0x9e3779b1", "n": n})
}

func TestFloat64Sample(t *testing.T) {
	if pbt.Skip() {
		t.Skip("replay or peer mode")
	}
	n := uint64(pbt.N(1000000, 2000000)) // thorough: per shard
	seed := pbt.DeriveSeed("float64-sample")
	// pattern i: a function of (seed, i) only — uniform bits, or uniform bits with the exponent
	// drawn near 1 / near the subnormal and overflow ends, or a neighbour of a short decimal
	at := func(i uint64) uint64 {
		x := seed + i*0x9e3779b97f4a7c15
		r := splitmix(&x)
		switch i % 4 {
		case 0:
			return r
		case 1: // exponent within 64 of the bias
			e := 1023 - 32 + (r>>52)%64
			return r&0x800fffffffffffff | e<<52
		case 2: // subnormals and the smallest / largest normals
			e := []uint64{0, 0, 1, 2, 2045, 2046}[(r>>52)%6]
			return r&0x800fffffffffffff | e<<52
		default: // neighbours of m * 10^k
			m := float64(r%100000) * math.Pow(10, float64(int(r>>20%61)-30))
			return math.Float64bits(m) + (r>>40)%5 - 2
		}
	}
	bad, err, singles := sweep(n, at, true, 16)
	if bad != nil {
		pbt.ReportViolation(t, "float-sweep", *bad, fmt.Errorf("float64-sample: %v", err))
		return
	}
	pbt.Count("float64-sample", int64(n)+singles, int64(n), fmt.Sprintf("float64 bit patterns from a splitmix stream of the seed (uniform bits; exponent near the bias; subnormal / extreme exponents; neighbours of short decimals) in batches of %d in a repeated double, every 16th also singly through an optional double; bit-for-bit, all NaNs one class", batch),
		false, map[string]any{"seed": seed, "n": n})
}

// The float32 double-rounding defect (KF-float32-double-rounding, fixed in /repo): the text
// parser read float32 literals at 64 bits and narrowed, so 7.038531e-26 came back one ulp up.
func TestKnownFindings(t *testing.T) {
	for _, bits := range []uint64{0x15ae43fd, 0x95ae43fd} {
		for _, single := range []bool{true, false} {
			_, err := floatBad(floatCase{Bits: []uint64{bits}, Single: single})
			detail := fmt.Sprintf("float32 bits %#08x through prototext (single=%v)", bits, single)
			if err != nil {
				detail += ": " + err.Error()
			}
			pbt.Witness(t, "KF-float32-double-rounding", err != nil, detail)
		}
	}
}
