package c24

import (
	"fmt"
	"sort"
	"strings"
	"testing"

	"google.golang.org/protobuf/encoding/prototext"
	"google.golang.org/protobuf/proto"
	"google.golang.org/protobuf/reflect/protoreflect"
	"google.golang.org/protobuf/zverif/corpus"
	"google.golang.org/protobuf/zverif/gen"
	"google.golang.org/protobuf/zverif/mcase"
	"google.golang.org/protobuf/zverif/model"
	"google.golang.org/protobuf/zverif/pbt"
	"pgregory.net/rapid"
)

// tcase: a message value and a few of the 8 option combinations.
type tcase struct {
	Type    string
	Dynamic bool
	M       *model.Msg
	Opts    []int  // bit0 Multiline, bit1 Indent != "", bit2 EmitASCII
	Indent  string // used when bit1 is set
}

var (
	stdTypes  = corpus.Standard()
	richTypes = corpus.Rich(12)
	wktBearing = pick(stdTypes, func(n string) bool {
		return strings.HasSuffix(n, ".KnownTypes") || strings.HasSuffix(n, ".TestAllTypesProto3") || n == "google.golang.org.Article" || n == "google.protobuf.Option"
	})
	textpb = pick(stdTypes, func(n string) bool {
		return strings.HasPrefix(n, "pb2.") || strings.HasPrefix(n, "pb3.") || strings.HasPrefix(n, "pbeditions.") ||
			strings.HasPrefix(n, "hybrid.pbeditions.") || strings.HasPrefix(n, "opaque.pbeditions.")
	})
	shapeTypes = pick(stdTypes, func(n string) bool {
		switch n {
		case "pb2.Extensions", "pb2.Nests", "pb2.Maps", "pb3.Maps", "pbeditions.Nests", "pbeditions.Extensions", "pbeditions.Maps",
			"goproto.proto.test.TestAllExtensions", "goproto.proto.test.TestAllTypes", "goproto.proto.test3.TestAllTypes",
			"goproto.proto.testeditions.TestAllTypes", "goproto.proto.testeditions.TestAllExtensions", "opaque.goproto.proto.testeditions.TestAllTypes",
			"protobuf_test_messages.proto2.TestAllTypesProto2", "protobuf_test_messages.editions.TestAllTypesEdition2023":
			return true
		}
		return false
	})
	wktTypes = pick(stdTypes, func(n string) bool {
		return strings.HasPrefix(n, "google.protobuf.") && (gen.ConstrainedJSON[protoreflect.FullName(n)] || strings.HasSuffix(n, "Value") || n == "google.protobuf.Empty")
	})
	anyTypes = append(append([]string{}, wktTypes...), pick(stdTypes, func(n string) bool {
		switch n {
		case "pb2.Nested", "pb2.Scalars", "pb2.Enums", "pb2.Repeats", "pb2.Maps", "pb2.Nests", "pb2.Extensions", "pb2.KnownTypes", "pb2.PartialRequired",
			"pb3.Scalars", "pb3.Nested", "pb3.Maps", "pb3.Oneofs", "pb3.JSONNames", "pb3.Proto3Optional", "pb3.Enums",
			"pbeditions.Scalars", "pbeditions.Nests", "pbeditions.KnownTypes",
			"goproto.proto.test.TestAllTypes", "goproto.proto.test.TestAllExtensions", "goproto.proto.test3.TestAllTypes",
			"goproto.proto.testeditions.TestAllTypes", "protobuf_test_messages.proto3.TestAllTypesProto3",
			"google.protobuf.FileDescriptorProto", "google.protobuf.Api", "google.golang.org.Article":
			return true
		}
		return false
	})...)
)

func pick(all []string, f func(string) bool) []string {
	var out []string
	for _, n := range all {
		if f(n) {
			out = append(out, n)
		}
	}
	return out
}

var msgOpts = gen.MsgOpts{Depth: 3, MaxFields: 6, MaxList: 3, MaxBytes: 60, FillRequired: true, Unknown: true, Extensions: true}

func drawType(t *rapid.T) string {
	switch rapid.IntRange(0, 9).Draw(t, "typeclass") {
	case 0, 1:
		return rapid.SampledFrom(wktBearing).Draw(t, "type")
	case 2:
		return rapid.SampledFrom(wktTypes).Draw(t, "type")
	case 3, 4:
		return rapid.SampledFrom(textpb).Draw(t, "type")
	case 5, 6:
		return rapid.SampledFrom(richTypes).Draw(t, "type")
	case 7, 8:
		return rapid.SampledFrom(shapeTypes).Draw(t, "type")
	default:
		return rapid.SampledFrom(stdTypes).Draw(t, "type")
	}
}

// drawContent draws valid content: every validated string is valid UTF-8 (unvalidated proto2
// strings hold arbitrary bytes in 1/3 of their draws); the well-known types are plain messages
// for the text format, so their out-of-JSON-domain values (1/6 of them) are valid content too;
// Any payloads may be undecodable (the text form is then the unexpanded one).
func drawContent(t *rapid.T, typ string) *model.Msg {
	wo := gen.WKTOpts{Bad: 6, BadUTF8: false, AnyTypes: anyTypes, P: 3, AnyDepth: 2}
	return gen.DrawMessageWKT(t, mcase.Desc(typ), msgOpts, wo)
}

func drawCase(t *rapid.T) tcase {
	c := tcase{Type: drawType(t), Dynamic: rapid.IntRange(0, 3).Draw(t, "dyn") == 0}
	c.M = drawContent(t, c.Type)
	n := rapid.IntRange(1, 3).Draw(t, "nopts")
	for i := 0; i < n; i++ {
		c.Opts = append(c.Opts, rapid.IntRange(0, 7).Draw(t, "opts"))
	}
	c.Indent = rapid.SampledFrom([]string{" ", "  ", "\t", "    ", " \t", "\t\t "}).Draw(t, "indent")
	return c
}

// compare decodes b into fresh messages (both implementations of the type) and compares with
// the content that has to survive.
func compare(typ string, dynamic bool, b []byte, sem *model.Msg, want protoreflect.Message, nanInAny bool, what string) error {
	md := mcase.Desc(typ)
	bit := model.EqualOpts{BitwiseFloats: true}
	for _, dyn := range []bool{dynamic, !dynamic} {
		m2 := mcase.New(typ, dyn)
		if err := (prototext.UnmarshalOptions{AllowPartial: true}).Unmarshal(b, m2.Interface()); err != nil {
			return fmt.Errorf("%s: Unmarshal failed (dynamic=%v): %v\ntext: %s", what, dyn, err, clip(b))
		}
		gsem, _, _ := gen.Textual(md, model.Snapshot(m2), nil)
		if d := model.Diff(md, sem, gsem, bit, nil); d != "" {
			return fmt.Errorf("%s: decoded message differs from the content without unknown fields (dynamic=%v): %s\ntext: %s", what, dyn, d, clip(b))
		}
		if len(m2.GetUnknown()) != 0 {
			return fmt.Errorf("%s: Unmarshal produced unknown fields %x", what, m2.GetUnknown())
		}
		if want != nil && !nanInAny {
			if !proto.Equal(want.Interface(), m2.Interface()) || !proto.Equal(m2.Interface(), want.Interface()) {
				return fmt.Errorf("%s: proto.Equal(m without unknown fields, decoded) = false (dynamic=%v)\ntext: %s", what, dyn, clip(b))
			}
		}
	}
	return nil
}

func checkCase(c tcase) error {
	md := mcase.Desc(c.Type)
	m := mcase.New(c.Type, c.Dynamic)
	if err := model.Apply(m, c.M, nil); err != nil {
		return fmt.Errorf("harness: %v", err)
	}
	bit := model.EqualOpts{BitwiseFloats: true}
	if d := model.Diff(md, c.M, model.Snapshot(m), bit, nil); d != "" {
		return fmt.Errorf("harness: message built through reflection does not read back as the model: %s", d)
	}
	sem, exact, nanInAny := gen.Textual(md, c.M, nil)
	want := mcase.New(c.Type, c.Dynamic)
	if err := model.Apply(want, exact, nil); err != nil {
		return fmt.Errorf("harness: %v", err)
	}
	for _, bits := range c.Opts {
		mo := prototext.MarshalOptions{Multiline: bits&1 != 0, EmitASCII: bits&4 != 0, AllowPartial: true}
		if bits&2 != 0 {
			mo.Indent = c.Indent
		}
		tag := fmt.Sprintf("opts {Multiline:%v Indent:%q EmitASCII:%v}", mo.Multiline, mo.Indent, mo.EmitASCII)
		b, err := mo.Marshal(m.Interface())
		if err != nil {
			return fmt.Errorf("%s: Marshal failed on valid content: %v", tag, err)
		}
		err = func() error {
			if mo.EmitASCII {
				for i, x := range b {
					if x >= 0x80 {
						return fmt.Errorf("%s: non-ASCII byte %#x at offset %d\ntext: %q", tag, x, i, clip(b))
					}
				}
			}
			if d := layout(b, mo.Multiline || mo.Indent != "", mo.Indent); d != "" {
				return fmt.Errorf("%s: layout: %s\ntext: %q", tag, d, clip(b))
			}
			return compare(c.Type, c.Dynamic, b, sem, want, nanInAny, tag+": Unmarshal(Marshal(m))")
		}()
		if err != nil {
			// a type URL written raw between brackets although the grammar cannot express it
			if oddAnyURL(md, c.M) && pbt.ExcludeKnown(kfAnyURL) {
				continue
			}
			return err
		}
	}
	return nil
}

func clip(b []byte) string {
	if len(b) > 1200 {
		return string(b[:1200]) + "…"
	}
	return string(b)
}

// layout checks the documented shape. Compact: a single line. Multiline: "every textual element
// on a new line", "every entry is preceded by Indent and terminated by a newline": each line is
// indented by depth x Indent, where a line ending in '{' opens a level and a line made of '}'
// closes one. indent == "" means an arbitrary unit, inferred from the output.
func layout(b []byte, multiline bool, indent string) string {
	if !multiline {
		if strings.IndexByte(string(b), '\n') >= 0 {
			return "compact output contains a newline"
		}
		return ""
	}
	if len(b) == 0 {
		return ""
	}
	if b[len(b)-1] != '\n' {
		return "last entry is not terminated by a newline"
	}
	depth := 0
	for ln, line := range strings.Split(string(b[:len(b)-1]), "\n") {
		body := strings.TrimLeft(line, " \t")
		ws := line[:len(line)-len(body)]
		if body == "" {
			return fmt.Sprintf("line %d is empty", ln+1)
		}
		if body == "}" {
			depth--
			if depth < 0 {
				return fmt.Sprintf("line %d: unbalanced }", ln+1)
			}
		}
		if indent == "" && depth > 0 {
			if len(ws) == 0 || len(ws)%depth != 0 {
				return fmt.Sprintf("line %d: indentation %q at depth %d", ln+1, ws, depth)
			}
			indent = ws[:len(ws)/depth]
		}
		if ws != strings.Repeat(indent, depth) {
			return fmt.Sprintf("line %d: indentation %q at depth %d, want %d x %q", ln+1, ws, depth, depth, indent)
		}
		// outside string literals, a line holds exactly one element: one field with a scalar,
		// a field opening a message ("name: {" / "name {"), an empty message ("name: {}") or "}"
		opens, closes, inStr := 0, 0, false
		for i := 0; i < len(body); i++ {
			switch ch := body[i]; {
			case inStr && ch == '\\':
				i++
			case ch == '"':
				inStr = !inStr
			case !inStr && ch == '{':
				opens++
			case !inStr && ch == '}':
				closes++
			}
		}
		switch {
		case body == "}":
		case opens == 1 && closes == 0 && strings.HasSuffix(body, "{"):
			depth++
		case opens == 1 && closes == 1 && strings.HasSuffix(body, "{}"):
		case opens == 0 && closes == 0:
		default:
			return fmt.Sprintf("line %d holds more than one element: %q", ln+1, body)
		}
	}
	if depth != 0 {
		return "unbalanced {"
	}
	return ""
}

// ---------------------------------------------------------------------------------------------
// classes

func walk(md protoreflect.MessageDescriptor, m *model.Msg, set map[string]bool, n *int, inAny bool) {
	if m == nil {
		return
	}
	name := md.FullName()
	if gen.ConstrainedJSON[name] {
		set["wkt:"+strings.ToLower(string(md.Name()))] = true
	}
	if name == "google.protobuf.Any" {
		if len(m.Fields) == 0 {
			set["any-empty"] = true
		} else if emd, emb, ok := gen.DecodeAny(m); ok {
			set["any-expandable"] = true
			if inAny {
				set["any-nested"] = true
			}
			if len(emb.Unknown) > 0 {
				set["any-payload-unknown"] = true
			}
			if f := m.Get(1); f != nil && !strings.HasPrefix(string(f.Vals[0].B), "type.google") {
				set["any-unusual-url"] = true
			}
			walk(emd, emb, set, n, true)
		} else {
			set["any-unexpandable"] = true
		}
		return
	}
	if len(m.Unknown) > 0 {
		set["unknown"] = true
	}
	for _, f := range m.Fields {
		fd := model.FieldDesc(md, f.Num, nil)
		if fd == nil {
			continue
		}
		*n++
		switch {
		case fd.IsExtension():
			set["extension"] = true
		case fd.IsMap():
			set["map"] = true
		case fd.ContainingOneof() != nil && !fd.ContainingOneof().IsSynthetic():
			set["oneof"] = true
		case fd.Kind() == protoreflect.GroupKind:
			set["group"] = true
		case fd.IsList():
			set["list"] = true
		}
		vd := fd
		if fd.IsMap() {
			vd = fd.MapValue()
		}
		switch vd.Kind() {
		case protoreflect.FloatKind, protoreflect.DoubleKind:
			for _, v := range f.Vals {
				set[floatClass(vd.Kind(), v.U)] = true
			}
		case protoreflect.EnumKind:
			for _, v := range f.Vals {
				if vd.Enum().Values().ByNumber(protoreflect.EnumNumber(int32(v.U))) == nil {
					set["enum-undeclared"] = true
				}
			}
		case protoreflect.StringKind:
			for _, v := range f.Vals {
				if !validUTF8(v.B) {
					set["string-invalid-utf8"] = true
				}
			}
		case protoreflect.BytesKind:
			set["bytes"] = true
		}
		if vd.Message() != nil {
			for _, v := range f.Vals {
				walk(vd.Message(), v.M, set, n, inAny)
			}
		}
	}
}

var lastClasses struct {
	m   *model.Msg
	set map[string]bool
	n   int
}

func (c tcase) classes() (map[string]bool, int) {
	if lastClasses.m == c.M && c.M != nil {
		return lastClasses.set, lastClasses.n
	}
	set := map[string]bool{}
	n := 0
	defer func() { lastClasses.m, lastClasses.set, lastClasses.n = c.M, set, n }()
	walk(mcase.Desc(c.Type), c.M, set, &n, false)
	if c.Dynamic {
		set["dynamicpb"] = true
	}
	for _, b := range c.Opts {
		for i, name := range []string{"Multiline", "Indent", "EmitASCII"} {
			if b>>i&1 != 0 {
				set["opt:"+name] = true
			}
		}
	}
	return set, n
}

func nonTrivial(set map[string]bool, n int) bool {
	if n < 2 {
		return false
	}
	for k := range set {
		if k == "float-long" || k == "extension" || k == "group" || k == "any-expandable" || k == "any-unexpandable" || k == "map" {
			return true
		}
	}
	return false
}

func classList(set map[string]bool) []string {
	var out []string
	for k := range set {
		out = append(out, k)
	}
	sort.Strings(out)
	return out
}

func TestRoundTrip(t *testing.T) {
	pbt.Run(t, pbt.Prop[tcase]{
		Name: "text-roundtrip",
		Rule: "type: 20% messages embedding every well-known type, 10% the well-known types themselves, 20% textpb2/textpb3/textpbeditions, 20% rich corpus types, 20% types with extensions / groups / maps of every key kind, 10% any Standard() type; generated or dynamicpb (decoded into both). content: descriptor-directed draw (boundary scalars, NaN payloads, -0, subnormals, raw bytes in unvalidated strings, maps, groups, extensions, unknown fields) plus the content generators for the well-known types (in and out of their JSON domain) and Any (registered type incl. nested Any, canonical or perturbed payload with unknown fields, unusual type URLs, unresolvable URL, malformed payload = unexpandable); 1..3 of the 8 option combinations {Multiline, Indent, EmitASCII}, EmitUnknown off. oracle: Marshal succeeds, EmitASCII output is ASCII, layout per option, Unmarshal(Marshal(m)) equals the model without unknown fields (Any payloads compared by content) with floats bit-for-bit (all NaNs one class), proto.Equal both ways. non-trivial = >= 2 populated fields and (a float/double needing > 6 significant digits, or extension / group / map / Any)",
		Draw: drawCase, Check: checkCase,
		NonTrivial: func(c tcase) bool { s, n := c.classes(); return nonTrivial(s, n) },
		Classes:    func(c tcase) []string { s, _ := c.classes(); return classList(s) },
		Quick:      30000, Thorough: 100000,
	})
}
