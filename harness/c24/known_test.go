package c24

import (
	"strings"
	"testing"

	"google.golang.org/protobuf/encoding/prototext"
	"google.golang.org/protobuf/reflect/protoreflect"
	"google.golang.org/protobuf/types/known/anypb"
	"google.golang.org/protobuf/zverif/gen"
	"google.golang.org/protobuf/zverif/model"
	"google.golang.org/protobuf/zverif/pbt"
)

// KF-text-any-url-unparseable: prototext.Marshal expands every Any whose type URL resolves as
// [url] { … }, also when the URL cannot be written between brackets in the text grammar
// (e.g. "https://example.com/pkg.T": ':' is not a type-name character); Unmarshal then rejects
// the output (or reads another URL: blanks inside the brackets are skipped, '#' starts a comment).
const kfAnyURL = "KF-text-any-url-unparseable"

// bracketURL: the URL can be written as a bracketed type name — [ prefix "/" ] full.name with the
// prefix made of letters, digits and -_.~!$&()*+,;=/ or %XX, not starting with '/'.
func bracketURL(url string) bool {
	prefix, name := "", url
	if i := strings.LastIndexByte(url, '/'); i >= 0 {
		prefix, name = url[:i], url[i+1:]
	}
	if strings.HasPrefix(prefix, "/") || !bracketName(name) {
		return false
	}
	for j := 0; j < len(prefix); j++ {
		c := prefix[j]
		switch {
		case c >= 'a' && c <= 'z', c >= 'A' && c <= 'Z', c >= '0' && c <= '9', strings.IndexByte("-_.~!$&()*+,;=/", c) >= 0:
		case c == '%' && j+2 < len(prefix)+0 && isHex(prefix[j+1]) && isHex(prefix[j+2]):
			j += 2
		default:
			return false
		}
	}
	return true
}

// bracketName: dotted name of non-empty identifiers over letters, digits, '-' and '_' (the text
// grammar for type names is wider than protobuf identifiers).
func bracketName(name string) bool {
	for _, id := range strings.Split(name, ".") {
		if id == "" {
			return false
		}
		for j := 0; j < len(id); j++ {
			c := id[j]
			if !(c >= 'a' && c <= 'z' || c >= 'A' && c <= 'Z' || c >= '0' && c <= '9' || c == '-' || c == '_') {
				return false
			}
		}
	}
	return true
}

// Since the repair of KF-text-any-url-unparseable prototext keeps an Any whose URL cannot be written
// between brackets in the raw type_url/value form; the expected content follows that rule.
func init() { gen.TextualKeepRaw = func(url string) bool { return !bracketURL(url) } }

func isHex(c byte) bool { return c >= '0' && c <= '9' || c >= 'a' && c <= 'f' || c >= 'A' && c <= 'F' }

// oddAnyURL reports whether the tree holds an expandable Any (resolvable URL, decodable payload)
// whose URL cannot be written between brackets.
func oddAnyURL(md protoreflect.MessageDescriptor, m *model.Msg) bool {
	if m == nil {
		return false
	}
	if md.FullName() == "google.protobuf.Any" {
		emd, emb, ok := gen.DecodeAny(m)
		if !ok {
			return false
		}
		if !bracketURL(string(m.Get(1).Vals[0].B)) {
			return true
		}
		return oddAnyURL(emd, emb)
	}
	for _, f := range m.Fields {
		fd := model.FieldDesc(md, f.Num, nil)
		if fd == nil {
			continue
		}
		sub := fd.Message()
		if fd.IsMap() {
			sub = fd.MapValue().Message()
		}
		if sub == nil {
			continue
		}
		for _, v := range f.Vals {
			if oddAnyURL(sub, v.M) {
				return true
			}
		}
	}
	return false
}

func TestKnownAnyURL(t *testing.T) {
	in := &anypb.Any{TypeUrl: "https://example.com/google.protobuf.BoolValue"}
	b, err := prototext.Marshal(in)
	repro := false
	detail := "prototext.Marshal(&anypb.Any{TypeUrl: \"https://example.com/google.protobuf.BoolValue\"})"
	if err == nil {
		var out anypb.Any
		if uerr := prototext.Unmarshal(b, &out); uerr != nil {
			repro = true
			detail += " = " + string(b) + "; Unmarshal: " + uerr.Error()
		} else if out.TypeUrl != in.TypeUrl {
			repro = true
			detail += " reads back with type_url " + out.TypeUrl
		}
	}
	pbt.Witness(t, kfAnyURL, repro, detail)
}
