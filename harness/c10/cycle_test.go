package c10

// A shape no linked type has: a required field that is reachable only through a cycle in the
// message graph, A{B b; C c}, B{A a}, C{required r}. The runtime decides per message type whether
// init checks are needed at all by walking that graph once and caching the answer.

import (
	"google.golang.org/protobuf/reflect/protoregistry"
	"google.golang.org/protobuf/runtime/protoimpl"
)

type CycA struct {
	B *CycB  `protobuf:"bytes,1,opt,name=b"`
	C *CycC  `protobuf:"bytes,2,opt,name=c"`
	N *int32 `protobuf:"varint,3,opt,name=n"`
}
type CycB struct {
	A  *CycA   `protobuf:"bytes,1,opt,name=a"`
	As []*CycA `protobuf:"bytes,2,rep,name=as"`
}
type CycC struct {
	R *int32  `protobuf:"varint,1,req,name=r"`
	S *string `protobuf:"bytes,2,opt,name=s"`
}

func (m *CycA) Reset()         { *m = CycA{} }
func (m *CycA) String() string { return "CycA" }
func (*CycA) ProtoMessage()    {}
func (m *CycB) Reset()         { *m = CycB{} }
func (m *CycB) String() string { return "CycB" }
func (*CycB) ProtoMessage()    {}
func (m *CycC) Reset()         { *m = CycC{} }
func (m *CycC) String() string { return "CycC" }
func (*CycC) ProtoMessage()    {}

// registerCycle makes the three types known to the registry the corpus helpers read, and returns
// the names under which the check addresses them. B comes first on purpose: which message the graph
// walk starts from decides what gets cached.
func registerCycle() []string {
	var names []string
	for _, m := range []any{&CycB{}, &CycA{}} {
		mt := protoimpl.X.ProtoMessageV2Of(m).ProtoReflect().Type()
		if err := protoregistry.GlobalTypes.RegisterMessage(mt); err != nil {
			panic(err)
		}
		names = append(names, string(mt.Descriptor().FullName()))
	}
	return names
}
