package c10

import (
	"fmt"
	"strings"
	"testing"

	"google.golang.org/protobuf/encoding/protojson"
	"google.golang.org/protobuf/encoding/prototext"
	"google.golang.org/protobuf/proto"
	"google.golang.org/protobuf/reflect/protoreflect"
	"google.golang.org/protobuf/zverif/corpus"
	"google.golang.org/protobuf/zverif/gen"
	"google.golang.org/protobuf/zverif/mcase"
	"google.golang.org/protobuf/zverif/model"
	"google.golang.org/protobuf/zverif/pbt"
	"pgregory.net/rapid"
)

type reqCase struct {
	mcase.Case
	Lazy bool
}

func isRequiredErr(err error) bool {
	return err != nil && strings.Contains(err.Error(), "required field") && strings.Contains(err.Error(), "not set")
}

// verdict checks: err must be the required-not-set error iff !init; any other error is a failure.
func verdict(what string, err error, init bool) error {
	switch {
	case init && err != nil:
		return fmt.Errorf("%s failed on a fully initialised message: %v", what, err)
	case !init && err == nil:
		return fmt.Errorf("%s accepted a message with an unset required field", what)
	case !init && !isRequiredErr(err):
		return fmt.Errorf("%s failed with an error other than required-not-set: %v", what, err)
	}
	return nil
}

func checkRequired(c reqCase) error {
	md := c.Desc()
	init := model.RequiredSet(md, c.M, nil)
	if init != model.Initialized(md, c.M, nil) {
		return fmt.Errorf("RequiredNumbers() disagrees with the fields' cardinalities for %s", md.FullName())
	}
	m, err := c.Build()
	if err != nil {
		return err
	}
	mi := m.Interface()
	if err := verdict("proto.CheckInitialized", proto.CheckInitialized(mi), init); err != nil {
		return err
	}
	_, err = proto.Marshal(mi)
	if err := verdict("proto.Marshal", err, init); err != nil {
		return err
	}
	_, err = proto.MarshalOptions{Deterministic: true}.Marshal(mi)
	if err := verdict("proto.Marshal(deterministic)", err, init); err != nil {
		return err
	}
	b, err := proto.MarshalOptions{AllowPartial: true}.Marshal(mi)
	if err != nil {
		return fmt.Errorf("Marshal(AllowPartial) failed: %v", err)
	}
	for _, wire := range [][]byte{b, c.Wire} {
		m2 := mcase.New(c.Type, c.Dynamic)
		err = proto.UnmarshalOptions{NoLazyDecoding: !c.Lazy}.Unmarshal(wire, m2.Interface())
		if err := verdict(fmt.Sprintf("proto.Unmarshal(lazy=%v)", c.Lazy), err, init); err != nil {
			return err
		}
		m3 := mcase.New(c.Type, c.Dynamic)
		if err := (proto.UnmarshalOptions{AllowPartial: true, NoLazyDecoding: !c.Lazy}).Unmarshal(wire, m3.Interface()); err != nil {
			return fmt.Errorf("Unmarshal(AllowPartial) failed: %v", err)
		}
		if err := verdict("CheckInitialized after Unmarshal(AllowPartial)", proto.CheckInitialized(m3.Interface()), init); err != nil {
			return err
		}
		// and Marshal of the (possibly lazily) decoded message
		_, err = proto.Marshal(m3.Interface())
		if err := verdict("proto.Marshal of decoded message", err, init); err != nil {
			return err
		}
	}
	// JSON
	_, err = protojson.Marshal(mi)
	if err := verdict("protojson.Marshal", err, init); err != nil {
		return err
	}
	jb, err := protojson.MarshalOptions{AllowPartial: true}.Marshal(mi)
	if err != nil {
		return fmt.Errorf("protojson.Marshal(AllowPartial) failed: %v", err)
	}
	mj := mcase.New(c.Type, c.Dynamic)
	if err := verdict("protojson.Unmarshal", protojson.Unmarshal(jb, mj.Interface()), init); err != nil {
		return fmt.Errorf("%v (document %s)", err, jb)
	}
	mj2 := mcase.New(c.Type, c.Dynamic)
	if err := (protojson.UnmarshalOptions{AllowPartial: true}).Unmarshal(jb, mj2.Interface()); err != nil {
		return fmt.Errorf("protojson.Unmarshal(AllowPartial) failed: %v", err)
	}
	// text
	_, err = prototext.Marshal(mi)
	if err := verdict("prototext.Marshal", err, init); err != nil {
		return err
	}
	tb, err := prototext.MarshalOptions{AllowPartial: true}.Marshal(mi)
	if err != nil {
		return fmt.Errorf("prototext.Marshal(AllowPartial) failed: %v", err)
	}
	mt := mcase.New(c.Type, c.Dynamic)
	if err := verdict("prototext.Unmarshal", prototext.Unmarshal(tb, mt.Interface()), init); err != nil {
		return fmt.Errorf("%v (document %s)", err, tb)
	}
	mt2 := mcase.New(c.Type, c.Dynamic)
	if err := (prototext.UnmarshalOptions{AllowPartial: true}).Unmarshal(tb, mt2.Interface()); err != nil {
		return fmt.Errorf("prototext.Unmarshal(AllowPartial) failed: %v", err)
	}
	return nil
}

var cycleTypes = append(registerCycle(), registerMany()...)

var reqTypes = func() []string {
	out := corpus.RequiredBearing()
	have := map[string]bool{}
	for _, n := range out {
		have[n] = true
	}
	for _, n := range cycleTypes { // registered above, so normally already listed
		if !have[n] {
			out = append(out, n)
		}
	}
	return out
}()

// missingDepth returns the depth of the shallowest missing required field (0 = none missing).
func missingDepth(md protoreflect.MessageDescriptor, v *model.Msg, depth int) int {
	if v == nil {
		v = &model.Msg{}
	}
	fs := md.Fields()
	for i := 0; i < fs.Len(); i++ {
		if fs.Get(i).Cardinality() == protoreflect.Required && v.Get(int32(fs.Get(i).Number())) == nil {
			return depth
		}
	}
	best := 0
	for _, f := range v.Fields {
		fd := model.FieldDesc(md, f.Num, nil)
		if fd == nil {
			continue
		}
		sub := fd.Message()
		if fd.IsMap() {
			sub = fd.MapValue().Message()
		}
		if sub == nil {
			continue
		}
		for _, x := range f.Vals {
			if d := missingDepth(sub, x.M, depth+1); d > 0 && (best == 0 || d < best) {
				best = d
			}
		}
	}
	return best
}

func TestRequired(t *testing.T) {
	mo := gen.DefaultMsgOpts
	mo.RequiredOmit = 5
	mo.ValidUTF8 = true // JSON legs need representable content
	mo.Depth = 4
	pbt.Run(t, pbt.Prop[reqCase]{
		Name: "required",
		Rule: "types: every linked type from which a required field is reachable, plus a hand-written struct-tag schema in which the required field is reachable only through a cycle of the message graph (A{B,C}, B{A}, C{required}) and one with 70 required fields; content from the descriptor-directed generator with each required field omitted with probability 1/5 at every depth (valid UTF-8 so that JSON/text can represent it). non-trivial = a required field missing at depth >= 2, or a fully initialised tree of depth >= 3",
		Draw: func(t *rapid.T) reqCase {
			if rapid.IntRange(0, 11).Draw(t, "cycle-types") == 0 {
				// the hand-written cyclic schema (cycle_test.go): a fixed share, deeper content
				cm := mo
				cm.Depth = 6
				pool := cycleTypes[:2]
				if rapid.Bool().Draw(t, "many-required") {
					// 70 required fields (many_test.go): omit rarely, so that often only a field beyond
					// the 64th is missing
					pool = cycleTypes[2:]
					cm.RequiredOmit = 80
				}
				return reqCase{Case: mcase.Draw(t, pool, pool, cm, model.AllPerturbations), Lazy: rapid.Bool().Draw(t, "lazy")}
			}
			return reqCase{Case: mcase.Draw(t, reqTypes, reqTypes, mo, model.AllPerturbations), Lazy: rapid.Bool().Draw(t, "lazy")}
		},
		Check: checkRequired,
		NonTrivial: func(c reqCase) bool {
			d := missingDepth(c.Desc(), c.M, 1)
			return d >= 2 || (d == 0 && mcase.Depth(c.Desc(), c.M) >= 3)
		},
		Classes: func(c reqCase) []string {
			d := missingDepth(c.Desc(), c.M, 1)
			cl := c.Classes()
			if d == 0 {
				cl = append(cl, "initialized")
			} else {
				cl = append(cl, fmt.Sprintf("missing-at-depth-%d", min(d, 4)))
			}
			return cl
		},
		Quick: 5000, Thorough: 150000,
	})
}

// regression witness of the fixed oneof defect
func TestOneofRequiredWitness(t *testing.T) {
	for _, n := range []string{"goproto.proto.test.TestOneofWithRequired", "opaque.goproto.proto.testeditions.TestOneofWithRequired"} {
		m := corpus.ByName(n).New().Interface()
		err := proto.Unmarshal([]byte{0x12, 0x00}, m)
		pbt.Witness(t, "KF-oneof-required-init", err == nil, "proto.Unmarshal([0x12 0x00]) into "+n+" accepted a partial message")
	}
}

// regression witness of the fixed lazy-decoding defect
func TestLazyRequiredWitness(t *testing.T) {
	n := "opaque.goproto.proto.testeditions.TestRequiredLazy"
	for _, b := range [][]byte{{0x0a, 0x00}, {0x0a, 0x02, 0x10, 0x01}} {
		m := corpus.ByName(n).New().Interface()
		err := proto.Unmarshal(b, m)
		pbt.Witness(t, "KF-lazy-required", err == nil, fmt.Sprintf("proto.Unmarshal(%x) into %s (lazy decoding on) accepted a partial lazy submessage", b, n))
	}
}
