"""Property table for the driver. Each property package harness/cNN carries its own metadata in
harness/cNN/check.json:
  {"property": "C01", "ready": true, "shards": 16, "rule": "...", "assumptions": ["..."],
   "legs": [{"name": "default", "tags": "verif"}, {"name": "legacy", "tags": "verif,protolegacy"}],
   "peers": [...], "timeout": {"quick": 600, "thorough": 7200}, "technique": "...", "level_text": "...", "level_note": "..."}
Only entries with "ready": true are claimed in MANIFEST.json."""
import glob, json, os

ROOT = os.path.dirname(os.path.abspath(__file__))
# Every package with "ready": true can be run by the driver; only properties listed in claimed.txt (checks
# reviewed and run at several seeds by the coordinator) are claimed in MANIFEST.json and built by setup.
CLAIMED = set(open(os.path.join(ROOT, "claimed.txt")).read().split())
CHECKS = {}
for f in sorted(glob.glob(os.path.join(ROOT, "harness", "c[0-9][0-9]", "check.json"))):
    cfg = json.load(open(f))
    if not cfg.get("ready"):
        continue
    cfg.setdefault("pkg", os.path.basename(os.path.dirname(f)))
    cfg.setdefault("shards", 16)
    cfg.setdefault("rule", "")
    CHECKS[cfg["property"]] = cfg

# properties deliberately not claimed, with reasons (anything else missing from CHECKS is "not built yet")
NOT_APPLICABLE = {}
# build-tag-guarded hook commits in /repo
HOOK_COMMITS = ["a81e5d931632b4aeac0af9b3520d782ace770992"]
