"""Property table for the driver: id -> package, build legs, shard counts, rule text."""

def leg(name="default", tags="verif", **kw):
    d = dict(name=name, tags=tags)
    d.update(kw)
    return d

CHECKS = {
    "C01": dict(pkg="c01", shards=16,
                rule="protowire primitives vs an independent reference encoder (bit-length/boundary enumeration + rapid draws)",
                assumptions=["reference varint/zigzag/fixed encoders written from the encoding spec; math/big; encoding/binary"]),
    "C03": dict(pkg="c03", shards=16,
                rule="binary round trip on the abstract message model over every linked message type",
                assumptions=["harness message model + reference wire encoder (checked against protowire by C01/C02)", "protoreflect Set/Get/Range used to build and read messages"]),
}

# properties deliberately not claimed, with reasons (everything else missing from CHECKS is "not built yet")
NOT_APPLICABLE = {}
# build-tag-guarded hook commits in /repo
HOOK_COMMITS = []
