#!/usr/bin/env python3
"""Sensitivity runs: apply one planted bug at a time to a scratch worktree of /repo and run checks.
  tools/sens.py run <mutant-id>... [--tier quick] [--wt /tmp/wt-sens]   (ids or prefixes from tools/mutants.json)
  tools/sens.py adhoc <file> <old> <new> <CNN>...                        (one-off substitution)
Results are appended to /verif/sensitivity/results.jsonl."""
import json, os, subprocess, sys, time
ROOT = os.path.dirname(os.path.dirname(os.path.abspath(__file__)))

def sh(cmd, **kw):
    return subprocess.run(cmd, shell=True, stdout=subprocess.PIPE, stderr=subprocess.STDOUT, text=True, **kw)

def ensure_wt(wt):
    if not os.path.isdir(wt):
        r = sh("git -C /repo worktree add -f --detach %s HEAD" % wt)
        if r.returncode: print(r.stdout); sys.exit(2)
    sh("git -C %s checkout -q -- . && git -C %s clean -fdq" % (wt, wt))

def apply(wt, m):
    if "patch" in m:
        r = sh("git -C %s apply %s" % (wt, os.path.join(ROOT, m["patch"])))
        if r.returncode: return r.stdout
        return None
    p = os.path.join(wt, m["file"])
    s = open(p).read()
    cnt = s.count(m["old"])
    if cnt == 0: return "pattern not found"
    if m.get("nth") is not None:
        idx = -1
        for _ in range(m["nth"] + 1):
            idx = s.index(m["old"], idx + 1)
        s = s[:idx] + m["new"] + s[idx + len(m["old"]):]
    else:
        if cnt > 1 and not m.get("all"): return "pattern ambiguous (%d matches)" % cnt
        s = s.replace(m["old"], m["new"])
    open(p, "w").write(s)
    return None

def run(m, tier, wt):
    ensure_wt(wt)
    err = apply(wt, m)
    if err:
        print("[sens] %s: cannot apply: %s" % (m["id"], err)); return
    bld = sh("cd %s && go build ./... 2>&1 | tail -5" % wt, env=dict(os.environ, GOFLAGS="-mod=mod", GOPROXY="off", GOSUMDB="off", GOTOOLCHAIN="local"))
    if bld.stdout.strip():
        print("[sens] %s: does not compile:\n%s" % (m["id"], bld.stdout)); ensure_wt(wt); return
    for pid in m["props"]:
        t0 = time.time()
        r = sh("cd %s && VERIF_REPO=%s ./verif check %s --tier %s" % (ROOT, wt, pid, tier))
        viol = [l for l in r.stdout.splitlines() if l.startswith("VIOLATION")]
        res = {"mutant": m["id"], "property": pid, "tier": tier, "exit": r.returncode, "caught": r.returncode == 1 and bool(viol),
               "wall_s": round(time.time() - t0, 1), "desc": m.get("desc", ""), "first": viol[0] if viol else r.stdout[-300:]}
        os.makedirs(os.path.join(ROOT, "sensitivity"), exist_ok=True)
        with open(os.path.join(ROOT, "sensitivity", "results.jsonl"), "a") as f:
            f.write(json.dumps(res) + "\n")
        detail = ""
        if viol:
            rp = viol[0].split("replay=")[1]
            try: detail = json.load(open(rp)).get("error", "")[:200]
            except Exception: pass
        print("[sens] %-28s %s %-5s exit=%d %s %.0fs %s" % (m["id"], pid, tier, r.returncode, "CAUGHT" if res["caught"] else "MISSED", res["wall_s"], detail))
        sh("rm -rf %s" % os.path.join(ROOT, "replays", pid))
    ensure_wt(wt)

def main():
    a = sys.argv[1:]
    tier, wt = "quick", "/tmp/wt-sens"
    if "--tier" in a: i = a.index("--tier"); tier = a[i + 1]; del a[i:i + 2]
    if "--wt" in a: i = a.index("--wt"); wt = a[i + 1]; del a[i:i + 2]
    if a[0] == "adhoc":
        run({"id": "adhoc", "file": a[1], "old": a[2], "new": a[3], "props": a[4:]}, tier, wt)
    else:
        ms = json.load(open(os.path.join(ROOT, "tools", "mutants.json")))
        for m in ms:
            if any(m["id"] == x or m["id"].startswith(x) for x in a[1:]):
                run(m, tier, wt)
    sh("git -C /repo worktree remove --force %s" % wt)

main()
