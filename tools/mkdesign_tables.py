#!/usr/bin/env python3
"""Regenerates the machine-written tables of DESIGN.md between marker comments:
  <!-- findings:begin --> … <!-- findings:end -->      from known_findings.json
  <!-- sens:begin -->     … <!-- sens:end -->          from sensitivity/results.jsonl
  <!-- seeded:begin -->   … <!-- seeded:end -->        from seeded/*/meta.json
Hand-written text around the markers is left alone."""
import glob, json, os, re
ROOT = os.path.dirname(os.path.dirname(os.path.abspath(__file__)))


def cell(s, n=420):
    s = " ".join(str(s).split()).replace("|", "\\|")
    return s if len(s) <= n else s[: n - 1] + "…"


def findings():
    d = json.load(open(os.path.join(ROOT, "known_findings.json")))
    out = ["| finding | properties | what fails | disposition |", "|---|---|---|---|"]
    for e in d["findings"]:
        props = [e["property"]] + [p for p in e.get("properties", []) if p != e["property"]]
        disp = ("fixed by `%s`" % e.get("commit", "?")) if e["status"] == "fixed" else "**known** (recorded, not repaired)"
        out.append("| %s | %s | %s | %s |" % (e["id"], " ".join(props), cell(e["what"]), disp))
    nfix = sum(1 for e in d["findings"] if e["status"] == "fixed")
    out.append("")
    out.append("%d findings: %d repaired by `fix:` commits in /repo, %d recorded as known." % (len(d["findings"]), nfix, len(d["findings"]) - nfix))
    return "\n".join(out)


def sens():
    rows = {}
    p = os.path.join(ROOT, "sensitivity", "results.jsonl")
    if os.path.exists(p):
        for l in open(p):
            l = l.strip()
            if not l:
                continue
            r = json.loads(l)
            rows[(r["mutant"], r["property"])] = r  # the last run of a pair wins
    out = ["| mutant | planted bug | check | result | wall s |", "|---|---|---|---|---|"]
    caught = 0
    for (m, pid), r in sorted(rows.items()):
        ok = r.get("caught")
        caught += 1 if ok else 0
        out.append("| %s | %s | %s | %s | %s |" % (m, cell(r.get("desc", ""), 160), pid, "caught" if ok else "MISSED (exit %s)" % r.get("exit"), r.get("wall_s", "")))
    out.append("")
    out.append("%d mutant × check runs, %d caught." % (len(rows), caught))
    return "\n".join(out)


def seeded():
    out = ["| seeded change | what it does | needs | checks run against it |", "|---|---|---|---|"]
    for mp in sorted(glob.glob(os.path.join(ROOT, "seeded", "*", "meta.json"))):
        m = json.load(open(mp))
        out.append("| seeded/%s | %s | %s | %s |" % (os.path.basename(os.path.dirname(mp)), cell(m.get("summary", ""), 300), cell(m.get("needs", ""), 260),
                                                 cell(str(m.get("checks_run_against_it", "")) + (" — " + m["note"] if m.get("note") else ""), 420)))
    return "\n".join(out)


def thorough():
    p = os.path.join(ROOT, "sensitivity", "thorough_runs.log")
    out = ["| check | result | cases | distinct non-trivial | wall s (16 shards, machine shared with other work) |", "|---|---|---|---|---|"]
    if not os.path.exists(p):
        return "\n".join(out)
    last = {}
    for l in open(p):
        m = re.match(r"seed=(\d+) (C\d+) rc=(\d+) (.*)", l.strip())
        if m:
            last[m.group(2)] = (m.group(3), m.group(4))
    for pid in sorted(last):
        rc, rest = last[pid]
        m = re.search(r"held on (\d+) cases \((\d+) distinct non-trivial\) in ([\d.]+)s", rest)
        if m:
            out.append("| %s | held | %s | %s | %s |" % (pid, m.group(1), m.group(2), m.group(3)))
        else:
            out.append("| %s | exit %s — %s | | | |" % (pid, rc, cell(rest, 200)))
    return "\n".join(out)


def main():
    p = os.path.join(ROOT, "DESIGN.md")
    s = open(p).read()
    for name, fn in (("findings", findings), ("sens", sens), ("seeded", seeded), ("thorough", thorough)):
        pat = re.compile(r"(<!-- %s:begin -->\n).*?(<!-- %s:end -->)" % (name, name), re.S)
        if not pat.search(s):
            print("marker missing:", name)
            continue
        s = pat.sub(lambda m: m.group(1) + fn() + "\n" + m.group(2), s)
    open(p, "w").write(s)


if __name__ == "__main__":
    main()
