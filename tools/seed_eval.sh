#!/bin/bash
# usage: tools/seed_eval.sh <seed-dir> <tier> <ids...>  — applies <seed-dir>/patch.diff to a scratch worktree of /repo
# HEAD and runs the named checks against it (VERIF_REPO); prints one line per check.
dir="$1"; tier="$2"; shift 2
wt=/tmp/wt-seedeval-$$
git -C /repo worktree add -f --detach $wt HEAD -q || exit 2
if ! git -C $wt apply "$dir/patch.diff"; then echo "[seed] patch does not apply"; git -C /repo worktree remove --force $wt; exit 2; fi
cd /verif
for p in "$@"; do
  t0=$(date +%s)
  out=$(VERIF_REPO=$wt ./verif check $p --tier $tier 2>&1); rc=$?
  v=$(echo "$out" | grep -m1 '^VIOLATION' | sed 's/.*replay=//')
  err=""; [ -n "$v" ] && err=$(python3 -c "import json,sys; print(json.load(open('$v')).get('error','')[:220].replace('\n',' '))" 2>/dev/null)
  echo "[seed] $(basename $dir) $p $tier rc=$rc $([ $rc -eq 1 ] && echo CAUGHT || echo MISSED) $(( $(date +%s)-t0 ))s $err"
  rm -rf replays/$p
done
git -C /repo worktree remove --force $wt
