#!/usr/bin/env python3
"""usage: seed_import.py <property> <seed-dir> <confirm-line> <eval-line> [--note text]
Copies a confirmed seeded change into /verif/seeded/<property>/ with a meta.json that records what it needs and what was run."""
import json, os, shutil, sys
pid, src, confirm, ev = sys.argv[1:5]
note = sys.argv[6] if len(sys.argv) > 6 and sys.argv[5] == "--note" else ""
dst = os.path.join("/verif/seeded", pid)
os.makedirs(dst, exist_ok=True)
for f in os.listdir(src):
    if f.startswith("FOREIGN"):
        continue
    shutil.copy(os.path.join(src, f), os.path.join(dst, f))
m = json.load(open(os.path.join(src, "meta.json")))
m["origin"] = "written by an independent sub-agent that saw only the property text and a scratch worktree of /repo (nothing from /verif)"
m["confirmed_by_coordinator"] = confirm
m["checks_run_against_it"] = ev
if note: m["note"] = note
json.dump(m, open(os.path.join(dst, "meta.json"), "w"), indent=1)
print("imported", pid)
