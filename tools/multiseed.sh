#!/bin/bash
# usage: tools/multiseed.sh "<seeds>" <tier> <ids...>   — runs checks at several seeds, logs non-zero exits
seeds="$1"; tier="$2"; shift 2
cd /verif
for s in $seeds; do for p in "$@"; do
  out=$(VERIF_SEED=$s nice ./verif check $p --tier $tier 2>&1); rc=$?
  echo "seed=$s $p rc=$rc $(echo "$out" | tail -1 | cut -c1-160)"
  if [ $rc -ne 0 ]; then echo "$out" | tail -15; mkdir -p /tmp/multiseed_fail; cp -r replays/$p /tmp/multiseed_fail/$p-seed$s 2>/dev/null; fi
done; done
