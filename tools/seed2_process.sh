#!/bin/bash
# usage: tools/seed2_process.sh <tag> "<ID pkgdir>" ...   — second-round seeds delivered in /tmp/seed2-<ID>:
# removes the breaker's worktree, evaluates each against its property's quick check, then confirms each.
tag="$1"; shift
items=("$@")
for x in "${items[@]}"; do id=${x%% *}; git -C /repo worktree remove --force /tmp/seed2wt-$id 2>/dev/null; done
for x in "${items[@]}"; do id=${x%% *}; /verif/tools/seed_eval.sh /tmp/seed2-$id quick $id; done > /tmp/seedeval_r2$tag.log 2>&1
for x in "${items[@]}"; do echo "$x"; done | xargs -P 2 -L 1 sh -c '/verif/tools/seed_confirm.sh /tmp/seed2-$0 $1' > /tmp/seedconfirm_r2$tag.log 2>&1
