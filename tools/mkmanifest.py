#!/usr/bin/env python3
"""Regenerates MANIFEST.json from checks.py (the single source for commands, levels, notes)."""
import json, os, sys
ROOT = os.path.dirname(os.path.dirname(os.path.abspath(__file__)))
sys.path.insert(0, ROOT)
from checks import CHECKS, NOT_APPLICABLE, HOOK_COMMITS, CLAIMED

props = [json.loads(l) for l in open(os.path.join(ROOT, "properties.jsonl"))]
ids = [p["id"] for p in props]
checks = []
for pid in ids:
    if pid not in CHECKS or pid not in CLAIMED:
        continue
    c = CHECKS[pid]
    checks.append({
        "property_id": pid,
        "quick_cmd": "./verif check %s --tier quick" % pid,
        "thorough_cmd": "./verif check %s --tier thorough" % pid,
        "evidence_file": "/verif/evidence/%s.json" % pid,
        "replay_cmd_template": "./verif replay {path}",
        "engine": "rapid-pbt",
        "level_claimed": {
            "category": "exploration",
            "text": c.get("level_text", c["rule"]),
            "design_ref": "DESIGN.md §4 " + pid,
        },
        "level_note": c.get("level_note", "Generated-input search only: no claim of absence. Trusted base: " + "; ".join(c.get("assumptions", ["the harness's own reference model"]))),
        "technique": c.get("technique", "property-based testing (rapid) against an independent oracle"),
    })
na = [{"property_id": pid, "reason": NOT_APPLICABLE.get(pid, "check not built yet in this session (planned in DESIGN.md §4); nothing is claimed")} for pid in ids if pid not in CHECKS or pid not in CLAIMED]
m = {
    "version": 1,
    "setup_cmd": "./verif setup",
    "hooks": {
        "guard": "verif",
        "enable": "go build tag: every check binary is built with -tags verif (plus protolegacy/protoreflect/protoopaque/-race legs where a property needs them)",
        "baseline_off_cmd": "cd /repo && go test -mod=mod -json -vet=off -count=1 -timeout 25m ./...",
        "source_commits": HOOK_COMMITS,
        "add_only": True,
    },
    "engines": [
        {"name": "rapid-pbt", "path": "/verif/harness", "serves_properties": [c["property_id"] for c in checks],
         "kind_free_text": "Go module google.golang.org/protobuf/zverif (replace => /repo): pgregory.net/rapid v1.3.0 properties, bounded exhaustive enumerations and native go fuzz targets over independent reference models; driver /verif/verif (python3 stdlib)"},
    ],
    "checks": checks,
    "notes": "Driver: ./verif check <id> --tier quick|thorough. Exit 0 held / 1 VIOLATION / 2 inconclusive (harness problem, never a verdict). Known findings live in /verif/known_findings.json and are never written at run time.",
    "not_applicable": na,
}
json.dump(m, open(os.path.join(ROOT, "MANIFEST.json"), "w"), indent=1)
print("MANIFEST.json: %d checks, %d not claimed" % (len(checks), len(na)))
