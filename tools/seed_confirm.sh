#!/bin/bash
# usage: tools/seed_confirm.sh <seed-dir> <demo-pkg-dir (e.g. proto or internal/zzdemo)>
# Confirms in a scratch worktree at /repo HEAD: patch applies, tree builds, demo passes without the patch and
# fails with it, and the existing tests of the main packages still pass with the patch (demo removed).
dir="$1"; pkg="$2"
export GOFLAGS=-mod=mod GOPROXY=off GOSUMDB=off GOTOOLCHAIN=local
wt=/tmp/wt-seedconf-$$
git -C /repo worktree add -f --detach $wt HEAD -q || exit 2
cd $wt
mkdir -p $pkg; cp $dir/zz_seed*_test.go $pkg/
nice go test -vet=off -count=1 ./$pkg/ -run 'Seed|.' > /tmp/sc_clean.$$ 2>&1; clean=$?
if [ "$pkg" = "proto" ]; then nice go test -vet=off -count=1 ./proto -run 'TestSeed' > /tmp/sc_clean.$$ 2>&1; clean=$?; fi
git apply $dir/patch.diff || { echo "[confirm] $(basename $dir): patch does not apply"; cd /; git -C /repo worktree remove --force $wt; exit 2; }
go build ./... > /tmp/sc_build.$$ 2>&1; build=$?
if [ "$pkg" = "proto" ]; then nice go test -vet=off -count=1 ./proto -run 'TestSeed' > /tmp/sc_patched.$$ 2>&1; patched=$?; else nice go test -vet=off -count=1 ./$pkg/ > /tmp/sc_patched.$$ 2>&1; patched=$?; fi
rm -f $pkg/zz_seed*_test.go; [ "$pkg" = "internal/zzdemo" ] && rm -rf internal/zzdemo
nice go test -vet=off -count=1 ./... > /tmp/sc_suite.$$ 2>&1; suite=$?
echo "[confirm] $(basename $dir): demo-on-clean rc=$clean (want 0)  build rc=$build (want 0)  demo-with-patch rc=$patched (want !=0)  full suite with patch rc=$suite (want 0)"
[ $suite -ne 0 ] && grep -v '^ok\|no test files' /tmp/sc_suite.$$ | head -10
[ $clean -ne 0 ] && tail -5 /tmp/sc_clean.$$
cd /; git -C /repo worktree remove --force $wt; rm -f /tmp/sc_*.$$
