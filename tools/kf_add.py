#!/usr/bin/env python3
"""Append/replace one entry of /verif/known_findings.json under a file lock.
usage: kf_add.py <id> <property> <status known|fixed> <what> [--props C07,C08] [--commit <sha>] [--witness <text>]"""
import argparse, fcntl, json, os
ROOT = os.path.dirname(os.path.dirname(os.path.abspath(__file__)))
ap = argparse.ArgumentParser()
ap.add_argument("id"); ap.add_argument("property"); ap.add_argument("status", choices=["known", "fixed"]); ap.add_argument("what")
ap.add_argument("--props", default=""); ap.add_argument("--commit", default=""); ap.add_argument("--witness", default="")
a = ap.parse_args()
path = os.path.join(ROOT, "known_findings.json")
with open(path, "r+") as f:
    fcntl.flock(f, fcntl.LOCK_EX)
    d = json.load(f)
    e = {"id": a.id, "status": a.status, "property": a.property, "what": a.what}
    if a.props: e["properties"] = a.props.split(",")
    if a.commit: e["commit"] = a.commit
    if a.witness: e["witness"] = a.witness
    d["findings"] = [x for x in d["findings"] if x["id"] != a.id] + [e]
    f.seek(0); f.truncate(); json.dump(d, f, indent=1); f.write("\n")
print("ok", a.id)
