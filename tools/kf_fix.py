#!/usr/bin/env python3
# usage: kf_fix.py <id> <commit>   — flip an existing entry to fixed, keeping its text
import json,sys,fcntl
p='/verif/known_findings.json'
with open(p,'r+') as f:
    fcntl.flock(f,fcntl.LOCK_EX)
    d=json.load(f)
    for e in d['findings']:
        if e['id']==sys.argv[1]:
            e['status']='fixed'; e['commit']=sys.argv[2]; print('ok',e['id']); break
    else: sys.exit('no such id')
    f.seek(0); f.truncate(); json.dump(d,f,indent=1); f.write('\n')
